#!/usr/bin/env python3
"""Writes /verif/MANIFEST.json. Edit CHECKS / NOT_APPLICABLE here, then run this script."""
import json, subprocess

HOOK_COMMITS = ["c13a16c", "6375c04", "8c58cb6"]
FIX_COMMITS = ["5745400", "ae98e56", "dcffde2", "7418ea5", "a157fe0", "efb55bc", "6ce14e1", "c329518", "5bc11fb"]

WIRE_NOTE = ("Trusted: the simulator itself (executor, pipe, model, oracle); AsyncTransport implementations are "
             "reliable and ordered; value codec/converter for payload equality; broker built with features "
             "statistics+introspection+verif-hooks. Sampling, not enumeration: a clean batch is "
             "evidence, not proof. Bounds: <=4 connections (+1 probe), <=50 operations per connection, UUID pools of 3.")

def wire(pid, category, text, ref, technique):
    return {
        "property_id": pid,
        "quick_cmd": f"./check {pid} quick",
        "thorough_cmd": f"./check {pid} thorough",
        "evidence_file": f"/verif/evidence/{pid}.json",
        "replay_cmd_template": "./check --replay {path}",
        "engine": "aldrin-sim",
        "level_claimed": {"category": category, "text": text, "design_ref": ref},
        "level_note": WIRE_NOTE,
        "technique": technique,
    }

SIM = "deterministic simulation with fault injection: seeded search over task schedules and fault sequences of the real broker/connection code under an owned executor and transport, "

CHECKS = [
    wire("C02", "exploration",
         "Seeded random/PCT schedules of the real Broker and Connection tasks with 2-4 scripted wire-level clients (versions 1.14-1.20) issuing overlapping calls, replies (owner, non-owner, duplicate, after abort), aborts, destruction and disconnects in five ways; 96 directed call scenarios (owner version x caller version x owner's fate x abort timing) run first in every batch; every broker step is compared with a sequential reference model (pending-call tables in all three places) and every client's received stream must equal the model's (exactly one reply per accepted call, right content, right serial; nothing from non-owners). Every 4th run is an API-level run with 2-4 real clients running call-heavy programs (calls awaited/dropped/cancelled against server tasks that answer, fail, abort or drop while services, proxies and objects go away) under the same broker model plus the client-side oracles (reply value, no hang at quiescence, no client error or panic).",
         "DESIGN.md section 5 C02", SIM + "lock-step refinement check against a reference model of the bus"),
    wire("C03", "exploration",
         "Same harness, workload biased to create/destroy of objects and services over 3x3 UUID pools with own/foreign/stale/never-issued cookies, queries and disconnects; registry state (both indexes, ownership, containment) equals the model after every broker step, every reply equals the model's, cookies are never reused. Every 4th run is an API-level run with 2-4 real clients churning objects and services through the client library (create/destroy/drop/re-create under pool UUIDs, with calls, find_object and discoverers as observers) under the same broker model plus the client-side oracles (no client error, panic or hang).",
         "DESIGN.md section 5 C03", SIM + "lock-step refinement check against a reference model of the registry"),
    wire("C04", "exploration",
         "Same harness, workload biased to subscribe/unsubscribe/subscribe-all/emit/destroy/disconnect; fan-out set, 0<->1 notifications to the owner (also on subscriber removal) and ServiceDestroyed notifications must equal the model; both subscription mirrors in the broker must agree with it after every step. Every 4th run is an API-level run with real clients: EventRound programs (1-3 proxies per task with random subscribe/subscribe-all/unsubscribe histories, owner emits a bracketed burst of uniquely numbered events) whose proxies must receive exactly the events their final subscription state implies, in order (covers the owner client's emit filter and the per-client proxy fan-out).",
         "DESIGN.md section 5 C04", SIM + "lock-step refinement check against a reference model of subscriptions"),
    wire("C05", "exploration",
         "Part A (broker credit arithmetic and end state machine): create/claim/close/send-item/add-capacity/disconnect with capacities 0..u32::MAX, senders that respect or overrun their credit; credit announced to the sender is adopted from the broker and checked against invariants (announced<=granted, no stall, cut-off only on overrun, overflow closes only the receiver), item streams and notifications equal the model. Part B (every 4th run): real Sender/Receiver sessions between real clients on unbounded/bounded transports: the consumer must see exactly the produced sequence (a prefix if somebody closed early), producer and consumer must not deadlock (blocked-at-quiescence oracle), broker model in lock step.",
         "DESIGN.md section 5 C05", SIM + "history invariants over credit plus model comparison of the channel end state machine"),
    wire("C09", "fault_enumeration",
         "Mixed bus activity with every connection ended at a random script position in one of five ways (clean Shutdown, transport error, EOF, shutdown_connection, Connection task dropped with requests still queued), plus broker shutdown / idle shutdown teardown in every run, connection churn with late joiners and re-used connection ids in a fifth of the runs, 48 directed introspection-database scenarios first in every batch; after every broker step the internal snapshot is cross-reference consistent and equal to the model, gauges equal true counts, peers got each notification once, and at the end nothing is left and Broker::run / Connection::run have returned.",
         "DESIGN.md section 5 C09", SIM + "fault points placed in generated histories, state snapshot (hook H3) compared with a reference model after every step"),
    wire("C10", "exploration",
         "Listener create/destroy, all six filter shapes over the UUID pools, start/stop with the three scopes, object/service churn and disconnects; the model evaluates the plain filter predicate (written independently of the repository's) so the broker's incremental fast paths are checked for every add/remove history; tagged current events + finished marker and per-connection de-duplicated new events must equal the model. Every 4th run is an API-level run with real clients: ListenerRound programs (real BusListener objects with private UUIDs, started New/All, optional sibling listener of the same connection started Current and restarted) whose received event sequences are compared exactly.",
         "DESIGN.md section 5 C10", SIM + "lock-step refinement check against a reference model of bus listeners"),
    wire("C11", "exploration",
         "1-2 abusing connections send arbitrary well-formed messages (all 63 kinds incl. wrong-direction ones, live/stale/foreign/never-issued cookies and serials, garbage payloads) next to conformant connections and a late-joining probe (48 directed introspection-database scenarios first in every batch, a third of the runs concentrated on one subsystem); no panic (debug assertions on), quiescence within the step cap, snapshot consistent after every step, conformant connections' whole streams equal the model's and they are not closed.",
         "DESIGN.md section 5 C11", SIM + "abuse generator plus whole-stream model comparison for bystanders"),
    wire("C12", "exploration",
         "Handshake requests inside and outside 1.14..1.20 (legacy and new connect), every gated request kind sent below and above its gate, traffic between all version pairs with payloads of eight container shapes plus multi-segment byte strings, values nested at the depth limit and random value trees over all 43 value variants; handshake outcome and negotiated version by the rule in the statement, gate => connection closed, monitor on every broker->client message (no kind newer than the client's version, no 1.20 encoding to a <1.20 client via an independent byte walker), payloads equal as decoded values.",
         "DESIGN.md section 5 C12", SIM + "version monitors on every delivered message plus model comparison"),
]

CHECKS.append({
    "property_id": "C14",
    "quick_cmd": "./check C14 quick",
    "thorough_cmd": "./check C14 thorough",
    "evidence_file": "/verif/evidence/C14.json",
    "replay_cmd_template": "./check --replay {path}",
    "engine": "aldrin-sim",
    "level_claimed": {"category": "exploration",
        "text": "The real Packetizer (both input interfaces) is fed the concatenated frames in PRNG-sized pieces down to one byte; two real TokioTransports are joined by a simulated byte pipe whose every poll_read/poll_write/poll_flush outcome (size, Pending, bounded capacity, EOF at a byte offset also mid-frame, zero-length write, I/O error at the k-th operation) comes from the per-run PRNG while a seeded scheduler interleaves sender and receiver. Oracle: frames/messages out = in, in order, each only after its last byte was read; bytes handed to the I/O object are a prefix of the serialized frames; flush returns only after all earlier bytes were accepted and the I/O object's flush completed; EOF and zero-length writes surface as errors, never as a message.",
        "design_ref": "DESIGN.md section 5 C14"},
    "level_note": "Trusted: the simulated pipe (reliable ordered byte stream) and the oracle. Sampling of chunkings and I/O result sequences; frame sizes up to 140 KB (one >4 MiB frame per ~400 thorough runs); one direction per transport pair.",
    "technique": "deterministic simulation with fault injection: scripted AsyncRead/AsyncWrite (short reads/writes, Pending, EOF, write-zero, I/O errors) under a seeded scheduler, history check frames-in = frames-out",
})

API_NOTE = ("Trusted: the simulator (executor, transport wrapper, program interpreter, oracles, broker model). Older client versions are "
            "emulated by clamping the minor version in the client's Connect2. Sampling, not enumeration. Bounds: 2-4 clients, 1-3 application "
            "tasks each, 6-40 operations per task, UUID pools of 3, <=250000 (quick) / 1500000 (thorough) executor steps per run; a poll that does not return within 60 s of "
            "wall-clock time is reported as a hang.")

def api(pid, category, text, ref, technique):
    return {
        "property_id": pid, "quick_cmd": f"./check {pid} quick", "thorough_cmd": f"./check {pid} thorough",
        "evidence_file": f"/verif/evidence/{pid}.json", "replay_cmd_template": "./check --replay {path}", "engine": "aldrin-sim",
        "level_claimed": {"category": category, "text": text, "design_ref": ref}, "level_note": API_NOTE, "technique": technique,
    }

CHECKS.append(api("C06", "exploration",
    "Real Broker, Connection, ClientBuilder/Client and every client-side type run under the deterministic executor with 2-4 clients (versions 1.14-1.20; core::channel unbounded / bounded(1,2,4,16) or the simulated pipe) whose application tasks interpret random closed programs over the public API, with calls dropped or cancelled mid-flight, establish cancelled, spurious polls and Pending-injecting transports. Oracle: no Client::run returns UnexpectedMessageReceived (or any error), no poll of repository code panics (debug assertions on) or fails to return, at the first quiescence no task is blocked in an operation whose peer has acted (lost wake-up / deadlock), awaited calls return the value computed for that call, channel sessions deliver the produced sequence, an introspection query returns exactly the registered description whenever the type is registered locally or by a client connected throughout, every task has completed after all clients shut down and shutdown_idle makes Broker::run return; the broker model runs in lock step.",
    "DESIGN.md section 5 C06", SIM.replace("broker/connection", "broker/connection/client") + "quiescence-based liveness oracle, result consistency checks"))
CHECKS.append(api("C15", "fault_enumeration",
    "The C06 programs plus one termination of a victim client per run: transport error or EOF at transport-operation index k (k a per-run fraction of the victim's operation count measured in a fault-free execution of the same plan) or Handle::shutdown / all handles dropped / BrokerHandle::shutdown / shutdown_connection / broker shutdown combined with a failing send direction / broker shutdown crossing the victim's own shutdown request, applied at operation count k; 18 (quick) or 126 (thorough) (cause, k, schedule) variants per generated program. Oracle: the victim's Client::run returns Ok for clean causes and the injected transport error otherwise (Ok after a failed send-side operation, or after a receive failure that preceded the broker's Shutdown, is a violation), no task of the victim is still blocked once run() has returned, nothing panics, every task has completed at the end, Connection::run returned and the broker model holds nothing of the victim, other clients finish.",
    "DESIGN.md section 5 C15", SIM.replace("broker/connection", "broker/connection/client") + "fault points placed relative to a fault-free dry run of the same plan"))
CHECKS.append(api("C19", "exploration",
    "Mutator tasks create/destroy objects and services over 3x3 UUID pools (re-creation under the same UUID, partial service sets, services before/after discoverer start) while observers run discoverers with 1-3 entries of all four kinds, restart them, drain events at random rates, use find_object / wait_for_object and lifetime scopes. At quiescence every non-current-only discoverer entry must report exactly the matching objects of the broker model with current cookies and service ids, its event stream (cut at restarts) alternates created/destroyed per object over incarnations that existed and adds up to the reported state; a Lifetime has resolved iff its scope object is gone and never resolved earlier; find/wait results existed within the call window.",
    "DESIGN.md section 5 C19", SIM.replace("broker/connection", "broker/connection/client") + "view-vs-registry comparison at quiescence against the broker model"))

NA_PURE = "pure function of its input (no schedule, clock, fault, crash point or history for a simulator to search); input generation under a simulator's name would be fuzzing/property-based testing, a different technique family (DESIGN.md section 6)"

NOT_APPLICABLE = [
    {"property_id": "C01", "reason": "value codec round trip / depth limit: " + NA_PURE},
    {"property_id": "C07", "reason": "totality of decoding untrusted bytes, skip == decode: " + NA_PURE},
    {"property_id": "C08", "reason": "message codec round trip and strict parsing: " + NA_PURE},
    {"property_id": "C13", "reason": "epoch conversion of a serialized value: " + NA_PURE},
    {"property_id": "C16", "reason": "generated Rust types are wire compatible: quantifies over schemas and values only (needs schema generation, rustc and round trips); " + NA_PURE},
    {"property_id": "C17", "reason": "schema front end is total: quantifies over source strings only; " + NA_PURE},
    {"property_id": "C18", "reason": "formatter preserves the schema and is idempotent: " + NA_PURE},
    {"property_id": "C20", "reason": "type ids are structural: pure function of the layout IR; " + NA_PURE},
]

claimed = {c["property_id"] for c in CHECKS}
NOT_APPLICABLE = [n for n in NOT_APPLICABLE if n["property_id"] not in claimed]

manifest = {
    "version": 1,
    "setup_cmd": "cd /verif/sim && CARGO_NET_OFFLINE=true cargo build --offline --profile sim",
    "hooks": {
        "guard": "cargo feature verif-hooks (aldrin-core, aldrin-broker, aldrin); off by default and in no default feature set",
        "enable": "/verif/sim/Cargo.toml depends on /repo/{core,broker,aldrin} by path with features [verif-hooks, statistics, introspection, channel, tokio]; every check runs `cargo build --offline --profile sim` first, so it rebuilds from /repo's working tree",
        "baseline_off_cmd": "cd /repo && cargo nextest run --workspace --no-fail-fast --test-threads 8 --offline",
        "source_commits": HOOK_COMMITS,
        "add_only": True,
    },
    "engines": [
        {"name": "aldrin-sim", "path": "/verif/sim",
         "serves_properties": sorted(claimed),
         "kind_free_text": "single-threaded deterministic executor + simulated transport + seeded random/PCT scheduler + fault injection + reference model (Rust, one binary)"},
    ],
    "checks": CHECKS,
    "not_applicable": NOT_APPLICABLE,
    "notes": "Exit codes: 0 held, 1 VIOLATION, 2 harness error. VERIF_SEED (default 1) seeds every batch. Known findings: /verif/known_findings.json. Replays: /verif/replays/. See DESIGN.md.",
}
json.dump(manifest, open("/verif/MANIFEST.json", "w"), indent=1)
print("wrote MANIFEST.json:", len(CHECKS), "checks,", len(NOT_APPLICABLE), "not applicable")
