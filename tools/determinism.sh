#!/bin/bash
# Determinism across processes: N processes x S seeds per harness, every seed executed twice inside
# each process (different threads); the per-seed trace hashes of all processes are then diffed.
# usage: tools/determinism.sh [processes=6] [seeds=150]
n=${1:-6}; s=${2:-150}
cd /verif/sim && cargo build --offline --profile sim -q || exit 2
d=$(mktemp -d)
for i in $(seq 1 $n); do ./target/sim/aldrin-sim selftest-determinism --seeds $s --dump $d/dump$i > $d/out$i 2>&1 & done
wait
ok=1
for i in $(seq 2 $n); do cmp -s $d/dump1 $d/dump$i || { echo "DIFFERENT: process 1 vs $i"; diff $d/dump1 $d/dump$i | head; ok=0; }; done
grep -h "determinism\|non-determin\|HARNESS" $d/out* | sort | uniq -c
lines=$(wc -l < $d/dump1)
rm -rf $d
[ $ok = 1 ] && echo "determinism across $n processes: $lines (property, seed) pairs identical" || exit 2
