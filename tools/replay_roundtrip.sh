#!/bin/bash
# usage: tools/replay_roundtrip.sh <seeded id>...
# For each seeded defect: apply it to /repo, run the quick check of its property, replay the reported
# file in a fresh process (must reproduce: exit 1 and a "reproduced:" line), revert /repo.
# Runs on a broken /repo must not replace the evidence of the unchanged tree in /verif/evidence.
export VERIF_EVIDENCE_DIR=$(mktemp -d /var/tmp/seeded-evidence.XXXXXX)
trap 'rm -rf "$VERIF_EVIDENCE_DIR"' EXIT
cd /repo || exit 2
if [ -n "$(git status --porcelain)" ]; then echo "/repo not clean"; exit 2; fi
trap 'rm -rf "$VERIF_EVIDENCE_DIR"; git -C /repo checkout -- . ; git -C /repo clean -fdq -- broker aldrin core 2>/dev/null' EXIT
for id in "$@"; do
  prop=${id%%-*}
  git -C /repo apply /verif/seeded/$id/patch.diff || { echo "$id: patch does not apply"; continue; }
  out=$(cd /verif && ./check $prop quick 2>&1); code=$?
  rule=$(echo "$out" | grep -m1 "^violation" | sed 's/violation rule=\([^ ]*\).*/\1/')
  file=$(echo "$out" | grep -m1 "^VIOLATION" | sed 's/.*replay=//')
  if [ $code -ne 1 ] || [ -z "$file" ]; then
    echo "$id: NOT DETECTED (exit $code)"
  else
    rout=$(cd /verif && ./check --replay "$file" 2>&1); rcode=$?
    min=$(python3 -c "import json;print(json.load(open('$file'))['minimised'])")
    if [ $rcode -eq 1 ] && echo "$rout" | grep -q "^reproduced:"; then
      echo "$id: detected rule=$rule minimised=$min replay reproduces"
    else
      echo "$id: detected rule=$rule minimised=$min REPLAY FAILED (exit $rcode): $(echo "$rout" | tail -1 | cut -c1-160)"
    fi
  fi
  git -C /repo checkout -- .
done
