#!/bin/bash
# usage: tools/confirm_seeded.sh <dir with patch.diff demo.diff meta.json>
# In a scratch worktree: demo passes without the patch, fails with it; the existing suite still passes
# with the patch. The worktree (and its build output) is removed afterwards.
d=$(realpath "$1")
wt=/tmp/confirm-$$
git -C /repo worktree add -q --detach $wt HEAD || exit 2
trap 'git -C /repo worktree remove --force '$wt EXIT
cd $wt
demo_cmd=$(python3 -c "import json;print(json.load(open('$d/meta.json'))['demo_cmd'])")
git apply "$d/demo.diff" || { echo "demo.diff does not apply"; exit 2; }
echo "--- demo without patch: $demo_cmd"
( eval "$demo_cmd" ) > /tmp/confirm-$$.log 2>&1; a=$?
tail -3 /tmp/confirm-$$.log
git apply "$d/patch.diff" || { echo "patch.diff does not apply"; exit 2; }
echo "--- demo with patch"
( eval "$demo_cmd" ) > /tmp/confirm-$$.log 2>&1; b=$?
tail -5 /tmp/confirm-$$.log
git apply -R "$d/demo.diff"
echo "--- suite with patch"
cargo nextest run --workspace --no-fail-fast --offline --test-threads 8 > /tmp/confirm-$$.log 2>&1; c=$?
grep -E "Summary|FAIL" /tmp/confirm-$$.log | head -5
rm -f /tmp/confirm-$$.log
echo "RESULT demo_without=$a demo_with=$b suite_with=$c"
