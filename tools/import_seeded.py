#!/usr/bin/env python3
"""usage: import_seeded.py <src dir> <id> <caught_by comma list> <detect summary>
Copies patch.diff / demo.diff / meta.json of a confirmed seeded defect into /verif/seeded/<id>/ and records what was run."""
import json, shutil, sys, os
src, sid, caught, summary = sys.argv[1:5]
dst = f"/verif/seeded/{sid}"
os.makedirs(dst, exist_ok=True)
for f in ("patch.diff", "demo.diff"):
    shutil.copy(os.path.join(src, f), dst)
m = json.load(open(os.path.join(src, "meta.json")))
m["breaks_property"] = m.pop("property")
m["origin"] = "independent sub-agent given only the property text and a scratch worktree"
m["confirmed_by_me"] = "tools/confirm_seeded.sh in a scratch worktree: demo passes without the patch, fails with it; full nextest suite (419) passes with the patch"
m["checks_run"] = f"tools/try_seeded.sh {dst}/patch.diff {caught.replace(',', ' ')}  (applies the patch to /repo, runs ./check <ID> quick, reverts)"
m["caught_by"] = [c for c in caught.split(",") if c]
m["detection"] = summary
json.dump(m, open(os.path.join(dst, "meta.json"), "w"), indent=1)
print("imported", sid)
