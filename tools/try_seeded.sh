#!/bin/bash
# usage: tools/try_seeded.sh <patch.diff> <PROPERTY> [more properties...]
# Applies a seeded defect to /repo, runs the quick checks, and always reverts /repo afterwards.
patch=$1; shift
# Runs on a broken /repo must not replace the evidence of the unchanged tree in /verif/evidence.
export VERIF_EVIDENCE_DIR=$(mktemp -d /var/tmp/seeded-evidence.XXXXXX)
trap 'rm -rf "$VERIF_EVIDENCE_DIR"' EXIT
cd /repo || exit 2
if [ -n "$(git status --porcelain)" ]; then echo "/repo not clean"; exit 2; fi
git apply "$patch" || { echo "patch does not apply"; exit 2; }
trap 'rm -rf "$VERIF_EVIDENCE_DIR"; git -C /repo checkout -- . ; git -C /repo clean -fdq -- broker aldrin core 2>/dev/null' EXIT
for p in "$@"; do
  out=$(cd /verif && ./check "$p" quick 2>&1)
  code=$?
  echo "== $p exit=$code"
  echo "$out" | grep -E "^(violation|detail|VIOLATION|KNOWN|HARNESS|runs=)" | cut -c1-400
done
