//! C14 harness: the real `Packetizer` and two real `TokioTransport`s joined by a simulated byte pipe
//! whose every `poll_read` / `poll_write` / `poll_flush` result is scripted by the PRNG (short reads
//! and writes down to one byte, `Pending`, bounded capacity, EOF, zero-length writes, I/O errors).

use crate::exec::{Exec, PollOutcome};
use crate::model::{Prop, Violation};
use crate::rng::{Fnv, Rng};
use crate::runner::{RunOutput, RunSpec};
use crate::sched::Chooser;
use crate::wire::RunStats;
use aldrin_core::message::{
    CreateObject, Message, MessageOps, Packetizer, SendItem, Shutdown, Sync,
};
use aldrin_core::tokio::TokioTransport;
use aldrin_core::transport::AsyncTransportExt;
use aldrin_core::{Bytes, ChannelCookie, ObjectUuid, SerializedValue, Value};
use serde_json::json;
use std::cell::RefCell;
use std::collections::VecDeque;
use std::io;
use std::pin::Pin;
use std::rc::Rc;
use std::task::{Context, Poll, Waker};
use tokio::io::{AsyncRead, AsyncWrite, ReadBuf};

#[derive(Debug, Clone, Copy, PartialEq, Eq)]
enum IoFault {
    None,
    /// The reader sees end-of-stream once `at` bytes have been read.
    EofAtByte(u64),
    /// The `k`-th write returns Ok(0).
    WriteZeroAtOp(u64),
    /// The `k`-th read returns an error.
    ReadErrorAtOp(u64),
    /// The `k`-th write returns an error.
    WriteErrorAtOp(u64),
}

#[derive(Default)]
struct IoStats {
    reads: u64,
    writes: u64,
    short_reads: u64,
    short_writes: u64,
    pendings: u64,
    full_pipe: u64,
    flush_pendings: u64,
}

struct Duplex {
    /// Bytes in flight from the writer to the reader.
    buf: VecDeque<u8>,
    capacity: usize,
    rng: Rng,
    pending_permille: u32,
    /// Maximum bytes moved per call (small values force many short operations).
    max_chunk: usize,
    fault: IoFault,
    fault_fired: bool,
    read_waker: Option<Waker>,
    write_waker: Option<Waker>,
    /// Everything the writer handed over, in order.
    written: Vec<u8>,
    keep_written: bool,
    bytes_written: u64,
    bytes_read: u64,
    /// The pipe's flush returned ready after the last accepted write.
    flushed_after_last_write: bool,
    writer_closed: bool,
    sig: Fnv,
    stats: IoStats,
    read_ops: u64,
    write_ops: u64,
}

struct WriteEnd(Rc<RefCell<Duplex>>);
struct ReadEnd(Rc<RefCell<Duplex>>);

/// One end of a bidirectional simulated byte stream (for bus runs over the real `TokioTransport`).
pub struct BiEnd {
    w: WriteEnd,
    r: ReadEnd,
}

fn new_duplex(rng: Rng, capacity: usize, max_chunk: usize, pending_permille: u32) -> Rc<RefCell<Duplex>> {
    Rc::new(RefCell::new(Duplex {
        buf: VecDeque::new(),
        capacity,
        rng,
        pending_permille,
        max_chunk: max_chunk.max(1),
        fault: IoFault::None,
        fault_fired: false,
        read_waker: None,
        write_waker: None,
        written: Vec::new(),
        keep_written: false,
        bytes_written: 0,
        bytes_read: 0,
        flushed_after_last_write: true,
        writer_closed: false,
        sig: Fnv::new(),
        stats: IoStats::default(),
        read_ops: 0,
        write_ops: 0,
    }))
}

/// A pair of connected byte-stream ends with scripted short reads/writes and `Pending`.
pub fn bi_pipe(rng: &mut Rng, capacity: usize, max_chunk: usize, pending_permille: u32) -> (BiEnd, BiEnd) {
    let ab = new_duplex(rng.fork(1), capacity, max_chunk, pending_permille);
    let ba = new_duplex(rng.fork(2), capacity, max_chunk, pending_permille);
    (
        BiEnd {
            w: WriteEnd(ab.clone()),
            r: ReadEnd(ba.clone()),
        },
        BiEnd {
            w: WriteEnd(ba),
            r: ReadEnd(ab),
        },
    )
}

impl AsyncRead for BiEnd {
    fn poll_read(mut self: Pin<&mut Self>, cx: &mut Context<'_>, buf: &mut ReadBuf<'_>) -> Poll<io::Result<()>> {
        Pin::new(&mut self.r).poll_read(cx, buf)
    }
}

impl AsyncWrite for BiEnd {
    fn poll_write(mut self: Pin<&mut Self>, cx: &mut Context<'_>, buf: &[u8]) -> Poll<io::Result<usize>> {
        Pin::new(&mut self.w).poll_write(cx, buf)
    }
    fn poll_flush(mut self: Pin<&mut Self>, cx: &mut Context<'_>) -> Poll<io::Result<()>> {
        Pin::new(&mut self.w).poll_flush(cx)
    }
    fn poll_shutdown(mut self: Pin<&mut Self>, cx: &mut Context<'_>) -> Poll<io::Result<()>> {
        Pin::new(&mut self.w).poll_shutdown(cx)
    }
}

// The write end is never read from and vice versa, but TokioTransport wants both traits.
impl AsyncRead for WriteEnd {
    fn poll_read(self: Pin<&mut Self>, _cx: &mut Context<'_>, _buf: &mut ReadBuf<'_>) -> Poll<io::Result<()>> {
        Poll::Pending
    }
}

impl AsyncWrite for ReadEnd {
    fn poll_write(self: Pin<&mut Self>, _cx: &mut Context<'_>, _buf: &[u8]) -> Poll<io::Result<usize>> {
        Poll::Pending
    }
    fn poll_flush(self: Pin<&mut Self>, _cx: &mut Context<'_>) -> Poll<io::Result<()>> {
        Poll::Ready(Ok(()))
    }
    fn poll_shutdown(self: Pin<&mut Self>, _cx: &mut Context<'_>) -> Poll<io::Result<()>> {
        Poll::Ready(Ok(()))
    }
}

impl AsyncWrite for WriteEnd {
    fn poll_write(self: Pin<&mut Self>, cx: &mut Context<'_>, buf: &[u8]) -> Poll<io::Result<usize>> {
        let mut d = self.0.borrow_mut();
        if buf.is_empty() {
            return Poll::Ready(Ok(0));
        }
        let space = d.capacity.saturating_sub(d.buf.len());
        if space == 0 {
            d.stats.full_pipe += 1;
            d.sig.u64(0x1000);
            d.write_waker = Some(cx.waker().clone());
            return Poll::Pending;
        }
        let permille = d.pending_permille;
        if permille > 0 && d.rng.chance(permille, 1000) {
            d.stats.pendings += 1;
            d.sig.u64(0x1001);
            cx.waker().wake_by_ref();
            return Poll::Pending;
        }
        let k = d.write_ops;
        d.write_ops += 1;
        match d.fault {
            IoFault::WriteZeroAtOp(at) if at == k => {
                d.fault_fired = true;
                d.sig.u64(0x1002);
                return Poll::Ready(Ok(0));
            }
            IoFault::WriteErrorAtOp(at) if at == k => {
                d.fault_fired = true;
                d.sig.u64(0x1003);
                return Poll::Ready(Err(io::Error::new(io::ErrorKind::BrokenPipe, "injected")));
            }
            _ => {}
        }
        let max = buf.len().min(space).min(d.max_chunk);
        let n = if d.rng.chance(1, 3) { max } else { 1 + d.rng.below(max) };
        if n < buf.len() {
            d.stats.short_writes += 1;
        }
        d.stats.writes += 1;
        d.sig.u64(0x2000_0000 + n as u64);
        d.buf.extend(&buf[..n]);
        if d.keep_written {
            d.written.extend_from_slice(&buf[..n]);
        }
        d.bytes_written += n as u64;
        d.flushed_after_last_write = false;
        if let Some(w) = d.read_waker.take() {
            w.wake();
        }
        Poll::Ready(Ok(n))
    }

    fn poll_flush(self: Pin<&mut Self>, cx: &mut Context<'_>) -> Poll<io::Result<()>> {
        let mut d = self.0.borrow_mut();
        let permille = d.pending_permille;
        if permille > 0 && d.rng.chance(permille, 1000) {
            d.stats.flush_pendings += 1;
            d.sig.u64(0x1004);
            cx.waker().wake_by_ref();
            return Poll::Pending;
        }
        d.flushed_after_last_write = true;
        Poll::Ready(Ok(()))
    }

    fn poll_shutdown(self: Pin<&mut Self>, _cx: &mut Context<'_>) -> Poll<io::Result<()>> {
        Poll::Ready(Ok(()))
    }
}

impl Drop for WriteEnd {
    fn drop(&mut self) {
        let mut d = self.0.borrow_mut();
        d.writer_closed = true;
        if let Some(w) = d.read_waker.take() {
            w.wake();
        }
    }
}

impl AsyncRead for ReadEnd {
    fn poll_read(self: Pin<&mut Self>, cx: &mut Context<'_>, buf: &mut ReadBuf<'_>) -> Poll<io::Result<()>> {
        let mut d = self.0.borrow_mut();
        if let IoFault::EofAtByte(at) = d.fault {
            if d.bytes_read >= at {
                d.fault_fired = true;
                d.sig.u64(0x1005);
                return Poll::Ready(Ok(()));
            }
        }
        if d.buf.is_empty() {
            if d.writer_closed {
                d.sig.u64(0x1006);
                return Poll::Ready(Ok(()));
            }
            d.read_waker = Some(cx.waker().clone());
            return Poll::Pending;
        }
        let permille = d.pending_permille;
        if permille > 0 && d.rng.chance(permille, 1000) {
            d.stats.pendings += 1;
            d.sig.u64(0x1007);
            cx.waker().wake_by_ref();
            return Poll::Pending;
        }
        let k = d.read_ops;
        d.read_ops += 1;
        if d.fault == IoFault::ReadErrorAtOp(k) {
            d.fault_fired = true;
            d.sig.u64(0x1008);
            return Poll::Ready(Err(io::Error::new(io::ErrorKind::ConnectionReset, "injected")));
        }
        let mut max = d.buf.len().min(buf.remaining()).min(d.max_chunk);
        if let IoFault::EofAtByte(at) = d.fault {
            max = max.min((at - d.bytes_read) as usize);
        }
        let n = if d.rng.chance(1, 3) { max } else { 1 + d.rng.below(max) };
        if n < d.buf.len().min(buf.remaining()) {
            d.stats.short_reads += 1;
        }
        d.stats.reads += 1;
        d.sig.u64(0x3000_0000 + n as u64);
        for _ in 0..n {
            let b = d.buf.pop_front().unwrap();
            buf.put_slice(&[b]);
        }
        d.bytes_read += n as u64;
        if let Some(w) = d.write_waker.take() {
            w.wake();
        }
        Poll::Ready(Ok(()))
    }
}

/// Message `i` of a plan: kind and payload size.
fn make_message(kind: u32, size: u32, idx: usize) -> Message {
    match kind % 4 {
        0 => Message::Shutdown(Shutdown),
        1 => Message::Sync(Sync { serial: idx as u32 }),
        2 => Message::CreateObject(CreateObject {
            serial: idx as u32,
            uuid: ObjectUuid(uuid::Uuid::from_u128(idx as u128 + 1)),
        }),
        _ => {
            let mut bytes = vec![0u8; size as usize];
            for (j, b) in bytes.iter_mut().enumerate() {
                *b = (j as u8).wrapping_mul(31).wrapping_add(idx as u8);
            }
            Message::SendItem(SendItem {
                cookie: ChannelCookie(uuid::Uuid::from_u128(idx as u128 + 7)),
                value: SerializedValue::serialize(Value::Bytes(Bytes::new(bytes))).expect("serialize"),
            })
        }
    }
}

const SIZES: &[u32] = &[
    0, 1, 3, 17, 100, 1000, 4000, 8100, 8150, 8170, 8180, 8190, 8200, 8300, 16400, 65400, 65500, 65530, 65600, 70000,
    140_000,
];

pub fn gen_io_plan(seed: u64, thorough: bool) -> serde_json::Value {
    let mut rng = Rng::new(seed ^ 0x696f);
    let n = rng.range(1, 14);
    let mut script = Vec::new();
    let mut big_used = false;
    for _ in 0..n {
        let kind = if rng.chance(1, 2) { 3 } else { rng.next_u32() % 3 };
        let mut size = if rng.chance(3, 5) {
            SIZES[rng.below(9)]
        } else {
            SIZES[rng.below(SIZES.len())]
        };
        if thorough && !big_used && rng.chance(1, 400) {
            size = 4 * 1024 * 1024 + 1000;
            big_used = true;
        }
        script.push(json!(["Send", kind, size, 0, 0]));
        if rng.chance(1, 3) {
            script.push(json!(["Flush", 0, 0, 0, 0]));
        }
    }
    let mode = rng.below(4); // 0,1: transport pair; 2: packetizer extend; 3: packetizer spare
    let fault = match rng.below(12) {
        0 => json!(["eof_at_byte", rng.next_u32() % 20_000]),
        1 => json!(["write_zero_at_op", rng.next_u32() % 40]),
        2 => json!(["read_error_at_op", rng.next_u32() % 40]),
        3 => json!(["write_error_at_op", rng.next_u32() % 40]),
        _ => json!(["none", 0]),
    };
    json!({
        "seed": seed.to_string(),
        "harness": "io",
        "mode": mode,
        "capacity": *rng.pick(&[1usize, 7, 64, 1000, 8192, 65536]),
        "max_chunk": *rng.pick(&[1usize, 2, 5, 100, 4096, 1 << 20]),
        "pending_permille": *rng.pick(&[0u32, 50, 300]),
        "fault": fault,
        "sched": "random",
        "buffered": rng.chance(1, 2),
        "actors": [{"script": script}],
    })
}

fn viol(rule: &str, detail: String) -> Violation {
    Violation::new(rule, &[Prop::C14], detail)
}

struct Sent {
    msgs: Vec<Message>,
    frames: Vec<Vec<u8>>,
}

fn expand(plan: &serde_json::Value) -> Option<(Sent, Vec<bool>)> {
    // Returns messages/frames and, per message, whether a Flush op follows it directly.
    let script = plan["actors"][0]["script"].as_array()?;
    let mut msgs = Vec::new();
    let mut frames = Vec::new();
    let mut flush_after = Vec::new();
    for op in script {
        match op[0].as_str()? {
            "Send" => {
                let m = make_message(op[1].as_u64()? as u32, op[2].as_u64()? as u32, msgs.len());
                frames.push(m.clone().serialize_message().ok()?.to_vec());
                msgs.push(m);
                flush_after.push(false);
            }
            "Flush" => {
                if let Some(l) = flush_after.last_mut() {
                    *l = true;
                }
            }
            _ => return None,
        }
    }
    Some((Sent { msgs, frames }, flush_after))
}

/// Part (a): the packetizer alone, through either of its input interfaces.
fn run_packetizer(plan: &serde_json::Value, sent: &Sent, spare_iface: bool, rng: &mut Rng, st: &mut RunStats) -> Vec<Violation> {
    let mut out = Vec::new();
    let stream: Vec<u8> = sent.frames.iter().flatten().copied().collect();
    let max_chunk = plan["max_chunk"].as_u64().unwrap_or(100) as usize;
    let mut p = Packetizer::new();
    let mut fed = 0usize;
    let mut got = 0usize;
    let mut cum = 0usize;
    let mut sig = Fnv::new();
    while fed < stream.len() {
        let n = 1 + rng.below(max_chunk.min(stream.len() - fed));
        let n = if spare_iface {
            let spare = p.spare_capacity_mut();
            let n = n.min(spare.len());
            for (dst, src) in spare.iter_mut().zip(&stream[fed..fed + n]) {
                dst.write(*src);
            }
            unsafe { p.bytes_written(n) };
            n
        } else {
            p.extend_from_slice(&stream[fed..fed + n]);
            n
        };
        sig.u64(n as u64);
        fed += n;
        while let Some(frame) = p.next_message() {
            if got >= sent.frames.len() {
                out.push(viol("framing.extra-frame", format!("packetizer produced frame #{got} but only {} were fed", sent.frames.len())));
                return out;
            }
            cum += sent.frames[got].len();
            if frame[..] != sent.frames[got][..] {
                out.push(viol(
                    "framing.frame-differs",
                    format!("frame #{got} differs from the original ({} vs {} bytes) after feeding {fed} bytes", frame.len(), sent.frames[got].len()),
                ));
                return out;
            }
            if cum > fed {
                out.push(viol("framing.frame-before-complete", format!("frame #{got} surfaced after {fed} bytes but ends at byte {cum}")));
                return out;
            }
            got += 1;
        }
        if sent.frames.get(got).is_some_and(|f| cum + f.len() <= fed) {
            out.push(viol("framing.frame-withheld", format!("frame #{got} is complete after {fed} bytes but was not produced")));
            return out;
        }
    }
    if got != sent.frames.len() {
        out.push(viol("framing.frames-lost", format!("{} frames fed, {got} produced", sent.frames.len())));
    }
    st.signature = sig.0;
    st.steps = fed;
    *st.probes.entry(if spare_iface { "packetizer-spare-interface" } else { "packetizer-extend-interface" }).or_insert(0) += 1;
    if max_chunk == 1 {
        *st.probes.entry("single-byte-chunks").or_insert(0) += 1;
    }
    out
}

#[derive(Default)]
struct Shared {
    received: Vec<(Message, u64)>,
    recv_error: Option<String>,
    send_error: Option<String>,
    sent_started: usize,
    flush_violation: Option<String>,
    flushes: u64,
    sender_done: bool,
}

pub fn io_harness(spec: &RunSpec) -> RunOutput {
    let plan = match &spec.plan {
        Some(p) => p.clone(),
        None => gen_io_plan(spec.seed, spec.tier == crate::gen::Tier::Thorough),
    };
    if spec.plan_only {
        return RunOutput {
            violations: vec![],
            harness_error: None,
            stats: RunStats::default(),
            choices: vec![],
            trace: vec![],
            plan,
        };
    }
    let mut st = RunStats::default();
    let mut violations = Vec::new();
    let mut trace = Vec::new();
    let seed: u64 = plan["seed"].as_str().and_then(|s| s.parse().ok()).unwrap_or(spec.seed);
    let mut master = Rng::new(seed ^ 0xc14);
    let io_rng = master.fork(1);
    let sched_rng = master.fork(2);
    let mut pk_rng = master.fork(3);

    let Some((sent, flush_after)) = expand(&plan) else {
        return RunOutput {
            violations,
            harness_error: Some("cannot parse io plan".into()),
            stats: st,
            choices: vec![],
            trace,
            plan,
        };
    };
    let mode = plan["mode"].as_u64().unwrap_or(0);
    if mode >= 2 {
        violations = run_packetizer(&plan, &sent, mode == 3, &mut pk_rng, &mut st);
        st.nontrivial = sent.frames.len() >= 2;
        st.trace_hash = st.signature;
        return RunOutput {
            violations,
            harness_error: None,
            stats: st,
            choices: vec![],
            trace,
            plan,
        };
    }

    let fault = match (plan["fault"][0].as_str().unwrap_or("none"), plan["fault"][1].as_u64().unwrap_or(0)) {
        ("eof_at_byte", k) => IoFault::EofAtByte(k),
        ("write_zero_at_op", k) => IoFault::WriteZeroAtOp(k),
        ("read_error_at_op", k) => IoFault::ReadErrorAtOp(k),
        ("write_error_at_op", k) => IoFault::WriteErrorAtOp(k),
        _ => IoFault::None,
    };
    let total_bytes: usize = sent.frames.iter().map(|f| f.len()).sum();
    let duplex = Rc::new(RefCell::new(Duplex {
        buf: VecDeque::new(),
        capacity: plan["capacity"].as_u64().unwrap_or(1000) as usize,
        rng: io_rng,
        pending_permille: plan["pending_permille"].as_u64().unwrap_or(0) as u32,
        max_chunk: plan["max_chunk"].as_u64().unwrap_or(100).max(1) as usize,
        fault,
        fault_fired: false,
        read_waker: None,
        write_waker: None,
        written: Vec::new(),
        keep_written: total_bytes < 2_000_000,
        bytes_written: 0,
        bytes_read: 0,
        flushed_after_last_write: true,
        writer_closed: false,
        sig: Fnv::new(),
        stats: IoStats::default(),
        read_ops: 0,
        write_ops: 0,
    }));

    let shared = Rc::new(RefCell::new(Shared::default()));
    let mut exec = Exec::new();

    // Sender.
    {
        let shared = shared.clone();
        let duplex2 = duplex.clone();
        let msgs = sent.msgs.clone();
        let frames_len: Vec<usize> = sent.frames.iter().map(|f| f.len()).collect();
        let flush_after = flush_after.clone();
        // Half of the runs put the repository's message buffer (`Buffered`) in front of the
        // transport, as `Connection` and `Client` do.
        let buffered = plan["buffered"].as_bool().unwrap_or(false);
        type DynT = Pin<Box<dyn aldrin_core::transport::AsyncTransport<Error = aldrin_core::tokio::TokioTransportError>>>;
        let mut t: DynT = if buffered {
            Box::pin(TokioTransport::new(WriteEnd(duplex.clone())).buffered())
        } else {
            Box::pin(TokioTransport::new(WriteEnd(duplex.clone())))
        };
        exec.spawn("sender", async move {
            let mut cum = 0u64;
            for (i, m) in msgs.into_iter().enumerate() {
                if let Err(e) = t.send(m).await {
                    shared.borrow_mut().send_error = Some(format!("{e:?}"));
                    shared.borrow_mut().sender_done = true;
                    return;
                }
                cum += frames_len[i] as u64;
                shared.borrow_mut().sent_started = i + 1;
                if flush_after[i] || i + 1 == frames_len.len() {
                    match t.flush().await {
                        Ok(()) => {
                            let d = duplex2.borrow();
                            let mut s = shared.borrow_mut();
                            s.flushes += 1;
                            if d.bytes_written < cum {
                                s.flush_violation = Some(format!(
                                    "flush returned after message #{i} with {} of {cum} bytes handed to the I/O object",
                                    d.bytes_written
                                ));
                            } else if !d.flushed_after_last_write {
                                s.flush_violation = Some(format!(
                                    "flush returned after message #{i} although the I/O object's flush has not completed since the last write"
                                ));
                            }
                        }
                        Err(e) => {
                            shared.borrow_mut().send_error = Some(format!("{e:?}"));
                            shared.borrow_mut().sender_done = true;
                            return;
                        }
                    }
                }
            }
            shared.borrow_mut().sender_done = true;
            // Dropping the transport closes the write end: the reader then sees EOF.
        });
    }

    // Receiver.
    {
        let shared = shared.clone();
        let duplex2 = duplex.clone();
        let mut t = Box::pin(TokioTransport::new(ReadEnd(duplex.clone())));
        exec.spawn("receiver", async move {
            loop {
                match t.receive().await {
                    Ok(m) => {
                        let read = duplex2.borrow().bytes_read;
                        shared.borrow_mut().received.push((m, read));
                    }
                    Err(e) => {
                        let text = format!("{e:?}");
                        let eof = text.contains("UnexpectedEof");
                        shared.borrow_mut().recv_error = Some(text);
                        // End of stream is sticky: asking again must not produce a message.
                        if eof {
                            if let Ok(m) = t.receive().await {
                                let read = duplex2.borrow().bytes_read;
                                shared.borrow_mut().received.push((m, read));
                                shared.borrow_mut().recv_error = Some("message-after-error".into());
                            }
                        }
                        return;
                    }
                }
            }
        });
    }

    let mut chooser = match &spec.choices {
        Some(c) => Chooser::replay(c.clone()),
        None => Chooser::random(sched_rng),
    };
    let mut ready = Vec::new();
    let mut thash = Fnv::new();
    // Single-byte chunks through a one-byte pipe cost several scheduler steps per byte.
    let max_steps = 3_000_000usize + total_bytes * 12;
    let mut harness_error = None;
    loop {
        exec.ready_tasks(&mut ready);
        if ready.is_empty() {
            break;
        }
        if st.steps >= max_steps {
            violations.push(viol("liveness.no-quiescence", format!("no quiescence within {max_steps} steps")));
            break;
        }
        let keys: Vec<u64> = ready.iter().map(|t| *t as u64).collect();
        let idx = chooser.choose(&keys);
        thash.u64(keys[idx]);
        if let PollOutcome::Panicked(info) = exec.poll(ready[idx]) {
            if info.in_harness() {
                harness_error = Some(format!("panic in simulator: {} at {}", info.message, info.location));
            } else {
                violations.push(viol("panic", format!("{} panicked: {} at {}", exec.name(ready[idx]), info.message, info.location)));
            }
            break;
        }
        st.steps += 1;
    }

    let s = shared.borrow();
    let d = duplex.borrow();
    if violations.is_empty() && harness_error.is_none() {
        // Received messages are a prefix of the sent ones, each only after its last byte was read.
        let mut cum = 0u64;
        for (i, (m, read)) in s.received.iter().enumerate() {
            if i >= sent.msgs.len() {
                violations.push(viol("stream.extra-message", format!("received message #{i} but only {} were sent", sent.msgs.len())));
                break;
            }
            cum += sent.frames[i].len() as u64;
            if *m != sent.msgs[i] {
                violations.push(viol("stream.message-differs", format!("received message #{i} differs from the one sent ({:?} vs {:?})", m.kind(), sent.msgs[i].kind())));
                break;
            }
            if *read < cum {
                violations.push(viol("stream.message-before-complete", format!("message #{i} delivered after {read} bytes were read but it ends at byte {cum}")));
                break;
            }
        }
        // The byte stream handed to the pipe is a prefix of the concatenated frames.
        if d.keep_written {
            let stream: Vec<u8> = sent.frames.iter().flatten().copied().collect();
            if d.written.len() > stream.len() || d.written[..] != stream[..d.written.len()] {
                violations.push(viol("stream.bytes-differ", format!("bytes written to the I/O object ({}) are not a prefix of the serialized messages ({})", d.written.len(), stream.len())));
            }
        }
        if let Some(v) = &s.flush_violation {
            violations.push(viol("flush.early", v.clone()));
        }
        let fault_fired = d.fault_fired;
        match (fault, fault_fired) {
            (_, false) => {
                // No fault happened: everything arrives, then EOF is reported as an error.
                if let Some(e) = &s.send_error {
                    violations.push(viol("stream.spurious-send-error", format!("sender failed without a fault: {e}")));
                }
                if s.received.len() != sent.msgs.len() {
                    violations.push(viol("stream.messages-lost", format!("{} messages sent and flushed, {} received (receiver ended with {:?})", sent.msgs.len(), s.received.len(), s.recv_error)));
                }
                if d.bytes_written != total_bytes as u64 && s.send_error.is_none() {
                    violations.push(viol("stream.byte-count", format!("{} bytes written to the I/O object, frames total {total_bytes}", d.bytes_written)));
                }
                match s.recv_error.as_deref() {
                    Some(e) if e.contains("UnexpectedEof") => {}
                    other => violations.push(viol("eof.not-reported", format!("after the writer closed, the receiver ended with {other:?} instead of an end-of-stream error"))),
                }
            }
            (IoFault::EofAtByte(_), true) => match s.recv_error.as_deref() {
                Some(e) if e.contains("UnexpectedEof") => {}
                other => violations.push(viol("eof.not-reported", format!("EOF injected but the receiver ended with {other:?}"))),
            },
            (IoFault::WriteZeroAtOp(_), true) => match s.send_error.as_deref() {
                Some(e) if e.contains("WriteZero") => {}
                other => violations.push(viol("write-zero.not-reported", format!("zero-length write injected but the sender ended with {other:?}"))),
            },
            (IoFault::ReadErrorAtOp(_), true) => {
                if s.recv_error.is_none() {
                    violations.push(viol("io-error.not-reported", "read error injected but the receiver did not fail".into()));
                }
            }
            (IoFault::WriteErrorAtOp(_), true) => {
                if s.send_error.is_none() {
                    violations.push(viol("io-error.not-reported", "write error injected but the sender did not fail".into()));
                }
            }
            (IoFault::None, true) => {}
        }
        if s.recv_error.as_deref() == Some("message-after-error") {
            violations.push(viol("eof.message-after-error", "a message was delivered after the transport had reported an error".into()));
        }
    }

    st.polls = exec.total_polls;
    st.signature = d.sig.0;
    thash.u64(d.sig.0);
    thash.u64(s.received.len() as u64);
    st.trace_hash = thash.0;
    let mut sh = Fnv::new();
    for c in &chooser.choices {
        sh.u64(*c as u64);
    }
    st.schedule_hash = sh.0;
    st.msgs_sent = s.sent_started as u64;
    st.msgs_received = s.received.len() as u64;
    st.nontrivial = sent.msgs.len() >= 2 && (d.stats.short_reads + d.stats.short_writes + d.stats.pendings + d.stats.full_pipe) > 0;
    let mut probe = |k: &'static str, v: u64| {
        if v > 0 {
            *st.probes.entry(k).or_insert(0) += v;
        }
    };
    probe("short-read", d.stats.short_reads);
    probe("short-write", d.stats.short_writes);
    probe("pipe-full-backpressure", d.stats.full_pipe);
    probe("flush-completed", s.flushes);
    probe("frame>=8KiB-backpressure-boundary", sent.frames.iter().filter(|f| f.len() >= 8192).count() as u64);
    probe("frame>=64KiB-reserve-step", sent.frames.iter().filter(|f| f.len() >= 65536).count() as u64);
    probe("frame>4MiB", sent.frames.iter().filter(|f| f.len() > 4 << 20).count() as u64);
    probe("transport-pair-run", 1);
    probe("buffered-in-front", plan["buffered"].as_bool().unwrap_or(false) as u64);
    let mut fault_ct = |k: &'static str, v: u64| {
        if v > 0 {
            *st.faults.entry(k).or_insert(0) += v;
        }
    };
    fault_ct("io_pending", d.stats.pendings + d.stats.flush_pendings);
    fault_ct("short_read", d.stats.short_reads);
    fault_ct("short_write", d.stats.short_writes);
    if d.fault_fired {
        fault_ct(
            match fault {
                IoFault::EofAtByte(_) => "io_eof",
                IoFault::WriteZeroAtOp(_) => "write_zero",
                IoFault::ReadErrorAtOp(_) | IoFault::WriteErrorAtOp(_) => "io_error",
                IoFault::None => "none",
            },
            1,
        );
    }
    if spec.tracing {
        trace.push(format!(
            "messages {} frames bytes {} received {} send_error {:?} recv_error {:?} reads {} writes {}",
            sent.msgs.len(), total_bytes, s.received.len(), s.send_error, s.recv_error, d.stats.reads, d.stats.writes
        ));
    }
    drop(s);
    drop(d);
    let _ = exec.drop_all();

    RunOutput {
        violations,
        harness_error,
        stats: st,
        choices: chooser.choices,
        trace,
        plan,
    }
}
