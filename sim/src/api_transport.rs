//! Level B transports: the repository's own `core::channel` transports (or the simulated pipe) under
//! a thin wrapper that counts operations, injects faults at a chosen operation index, reports
//! `Pending` now and then, and lets a client present itself with an older protocol version.

use crate::rng::Rng;
use crate::transport::{SimTransport, SimTransportError};
use aldrin_core::channel::{Bounded, Unbounded};
use aldrin_core::message::Message;
use aldrin_core::transport::AsyncTransport;
use std::cell::RefCell;
use std::pin::Pin;
use std::rc::Rc;
use std::task::{Context, Poll};

pub enum Inner {
    Unbounded(Unbounded),
    Bounded(Bounded),
    Sim(SimTransport),
    /// The repository's stream transport over a simulated byte pipe.
    Tokio(Pin<Box<aldrin_core::tokio::TokioTransport<crate::io::BiEnd>>>),
}

#[derive(Debug, Clone, Copy, PartialEq, Eq)]
pub enum FaultMode {
    /// Every operation from index k on fails with an injected error.
    Error,
    /// From index k on the peer appears to have closed the stream.
    Eof,
    /// Only the sending direction breaks (from the first send operation at or after index k):
    /// sends and flushes fail, receiving stays possible.
    SendError,
}

pub struct FaultCtl {
    pub ops: u64,
    pub fail_at: Option<(u64, FaultMode)>,
    pub failing: Option<FaultMode>,
    pub fired: bool,
    pub pending_permille: u32,
    pub rng: Rng,
    pub pendings: u64,
    /// Rewrite the minor version of an outgoing `Connect2` (how an older client presents itself).
    pub force_minor: Option<u32>,
    pub sent: u64,
    pub received: u64,
    /// Operation indices at which a message boundary was crossed (for biased fault placement).
    pub boundaries: Vec<u64>,
    /// Name and sink for transport-level tracing (replays).
    pub trace: Option<(String, crate::api_app::SharedLog)>,
    /// Behave like a stream transport with its own write buffer: messages handed to `send_start`
    /// only leave when `send_poll_flush` is polled to completion.
    pub flush_required: bool,
    pub held: std::collections::VecDeque<Message>,
    /// The broker's `Shutdown` has been handed to the receiver of this transport.
    pub shutdown_seen: bool,
    /// At the moment the fault fired: was it a send-side operation, had `Shutdown` been seen?
    pub fired_on_send: bool,
    pub shutdown_seen_at_fire: bool,
}

impl FaultCtl {
    pub fn new(rng: Rng, pending_permille: u32) -> Self {
        Self {
            ops: 0,
            fail_at: None,
            failing: None,
            fired: false,
            pending_permille,
            rng,
            pendings: 0,
            force_minor: None,
            sent: 0,
            received: 0,
            boundaries: Vec::new(),
            trace: None,
            flush_required: false,
            held: std::collections::VecDeque::new(),
            shutdown_seen: false,
            fired_on_send: false,
            shutdown_seen_at_fire: false,
        }
    }

    fn op(&mut self) -> Result<(), SimTransportError> {
        self.op_dir(true)
    }

    /// Counts an operation; `send` tells the direction.
    fn op_dir(&mut self, send: bool) -> Result<(), SimTransportError> {
        if let Some(m) = self.failing {
            if send || m != FaultMode::SendError {
                return Err(err_of(m));
            }
        }
        let k = self.ops;
        self.ops += 1;
        if let Some((at, mode)) = self.fail_at {
            let hit = if mode == FaultMode::SendError {
                send && k >= at && self.failing.is_none()
            } else {
                at == k
            };
            if hit {
                self.failing = Some(mode);
                self.fired = true;
                self.fired_on_send = send;
                self.shutdown_seen_at_fire = self.shutdown_seen;
                return Err(err_of(mode));
            }
        }
        Ok(())
    }

    fn recv_blocked(&self) -> Option<SimTransportError> {
        match self.failing {
            Some(m) if m != FaultMode::SendError => Some(err_of(m)),
            _ => None,
        }
    }

    fn buggify(&mut self, cx: &mut Context) -> bool {
        // The lost-wake-up probe polls parked tasks once more; an injected `Pending` (which wakes
        // the polled task itself) would look like progress there.
        if PROBING.with(|p| p.get()) {
            return false;
        }
        if self.pending_permille > 0 && self.rng.chance(self.pending_permille, 1000) {
            self.pendings += 1;
            cx.waker().wake_by_ref();
            true
        } else {
            false
        }
    }
}

fn err_of(m: FaultMode) -> SimTransportError {
    match m {
        FaultMode::Error | FaultMode::SendError => SimTransportError::Injected,
        FaultMode::Eof => SimTransportError::Eof,
    }
}

thread_local! {
    /// Set while the harness polls parked tasks at quiescence (no injection then).
    pub static PROBING: std::cell::Cell<bool> = const { std::cell::Cell::new(false) };
}

pub type SharedCtl = Rc<RefCell<FaultCtl>>;

pub struct Faulty {
    inner: Inner,
    ctl: SharedCtl,
}

impl std::fmt::Debug for Faulty {
    fn fmt(&self, f: &mut std::fmt::Formatter) -> std::fmt::Result {
        f.write_str("Faulty")
    }
}

impl Faulty {
    pub fn new(inner: Inner, ctl: SharedCtl) -> Self {
        Self { inner, ctl }
    }
}

macro_rules! delegate {
    ($self:ident, $t:ident => $e:expr) => {
        match &mut $self.inner {
            Inner::Unbounded($t) => $e.map_err(|_| SimTransportError::Eof),
            Inner::Bounded($t) => $e.map_err(|_| SimTransportError::Eof),
            Inner::Sim($t) => $e,
            Inner::Tokio($t) => $e.map_err(|_| SimTransportError::Eof),
        }
    };
}

impl AsyncTransport for Faulty {
    type Error = SimTransportError;

    fn receive_poll(self: Pin<&mut Self>, cx: &mut Context) -> Poll<Result<Message, Self::Error>> {
        let this = self.get_mut();
        {
            let mut ctl = this.ctl.borrow_mut();
            if let Some(e) = ctl.recv_blocked() {
                return Poll::Ready(Err(e));
            }
            // A fault planned for the current operation index also fires while the transport is
            // idle (the link breaks while the client waits).
            if let Some((at, mode)) = ctl.fail_at {
                if at == ctl.ops && mode != FaultMode::SendError {
                    ctl.ops += 1;
                    ctl.failing = Some(mode);
                    ctl.fired = true;
                    ctl.fired_on_send = false;
                    ctl.shutdown_seen_at_fire = ctl.shutdown_seen;
                    return Poll::Ready(Err(err_of(mode)));
                }
            }
            // A spurious `Pending` (with an immediate wake-up) on the receiving side, too.
            if ctl.buggify(cx) {
                return Poll::Pending;
            }
        }
        let res = delegate!(this, t => match Pin::new(t).receive_poll(cx) {
            Poll::Ready(r) => r.map(Some),
            Poll::Pending => Ok(None),
        });
        match res {
            Ok(None) => Poll::Pending,
            Ok(Some(msg)) => {
                let mut ctl = this.ctl.borrow_mut();
                if let Err(e) = ctl.op_dir(false) {
                    return Poll::Ready(Err(e));
                }
                ctl.received += 1;
                if matches!(msg, Message::Shutdown(_)) {
                    ctl.shutdown_seen = true;
                }
                let k = ctl.ops;
                ctl.boundaries.push(k);
                if let Some((name, log)) = &ctl.trace {
                    let mut l = log.borrow_mut();
                    l.tr(|| format!("    {name} recv {}", crate::api_transport::short(&msg)));
                }
                Poll::Ready(Ok(msg))
            }
            Err(e) => {
                let ctl = this.ctl.borrow();
                if let Some((name, log)) = &ctl.trace {
                    log.borrow_mut().tr(|| format!("    {name} recv error {e:?}"));
                }
                Poll::Ready(Err(e))
            }
        }
    }

    fn send_poll_ready(self: Pin<&mut Self>, cx: &mut Context) -> Poll<Result<(), Self::Error>> {
        let this = self.get_mut();
        {
            let mut ctl = this.ctl.borrow_mut();
            if let Some(m) = ctl.failing {
                return Poll::Ready(Err(err_of(m)));
            }
            if ctl.buggify(cx) {
                return Poll::Pending;
            }
        }
        let res = delegate!(this, t => match Pin::new(t).send_poll_ready(cx) {
            Poll::Ready(r) => r.map(|()| true),
            Poll::Pending => Ok(false),
        });
        match res {
            Ok(true) => Poll::Ready(Ok(())),
            Ok(false) => Poll::Pending,
            Err(e) => Poll::Ready(Err(e)),
        }
    }

    fn send_start(self: Pin<&mut Self>, mut msg: Message) -> Result<(), Self::Error> {
        let this = self.get_mut();
        {
            let mut ctl = this.ctl.borrow_mut();
            ctl.op()?;
            ctl.sent += 1;
            let k = ctl.ops;
            ctl.boundaries.push(k);
            if let (Some(minor), Message::Connect2(c)) = (ctl.force_minor, &mut msg) {
                c.minor_version = minor;
            }
            if let Some((name, log)) = &ctl.trace {
                log.borrow_mut().tr(|| format!("    {name} send {}", crate::api_transport::short(&msg)));
            }
        }
        if this.ctl.borrow().flush_required {
            this.ctl.borrow_mut().held.push_back(msg);
            return Ok(());
        }
        delegate!(this, t => Pin::new(t).send_start(msg))
    }

    fn send_poll_flush(self: Pin<&mut Self>, cx: &mut Context) -> Poll<Result<(), Self::Error>> {
        let this = self.get_mut();
        {
            let mut ctl = this.ctl.borrow_mut();
            if let Some(m) = ctl.failing {
                return Poll::Ready(Err(err_of(m)));
            }
            if ctl.buggify(cx) {
                return Poll::Pending;
            }
        }
        // Write-buffer emulation: hand the held messages over first.
        loop {
            if this.ctl.borrow().held.is_empty() {
                break;
            }
            let ready = delegate!(this, t => match Pin::new(t).send_poll_ready(cx) {
                Poll::Ready(r) => r.map(|()| true),
                Poll::Pending => Ok(false),
            });
            match ready {
                Ok(true) => {
                    let msg = this.ctl.borrow_mut().held.pop_front().unwrap();
                    if let Err(e) = delegate!(this, t => Pin::new(t).send_start(msg)) {
                        return Poll::Ready(Err(e));
                    }
                }
                Ok(false) => return Poll::Pending,
                Err(e) => return Poll::Ready(Err(e)),
            }
        }
        let res = delegate!(this, t => match Pin::new(t).send_poll_flush(cx) {
            Poll::Ready(r) => r.map(|()| true),
            Poll::Pending => Ok(false),
        });
        match res {
            Ok(true) => {
                let mut ctl = this.ctl.borrow_mut();
                match ctl.op() {
                    Ok(()) => Poll::Ready(Ok(())),
                    Err(e) => Poll::Ready(Err(e)),
                }
            }
            Ok(false) => Poll::Pending,
            Err(e) => Poll::Ready(Err(e)),
        }
    }
}

pub fn short(msg: &Message) -> String {
    let s = format!("{msg:?}");
    if s.len() > 160 {
        format!("{}…", &s[..160])
    } else {
        s
    }
}
