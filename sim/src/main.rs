mod directed;
mod api;
mod api_app;
mod api_app2;
mod api_gen;
mod api_intro;
mod api_transport;
mod entropy;
mod exec;
mod gen;
mod io;
mod model;
mod rng;
mod runner;
mod sched;
mod shrink;
mod transport;
mod wire;
mod wire_ops;

use gen::Tier;
use model::Prop;
use runner::{BatchCfg, BatchOut, Found, HarnessFn, RunOutput, RunSpec};
use serde_json::json;
use wire::RunStats;

/// Directory evidence, replays and known findings live in (the directory of the `check` script).
fn verif_dir() -> String {
    std::env::var("VERIF_DIR").unwrap_or_else(|_| "/verif".to_string())
}

fn wire_harness(spec: &RunSpec) -> RunOutput {
    let plan = match &spec.plan {
        Some(p) => match wire::WirePlan::from_json(p) {
            Some(p) => p,
            None => {
                return RunOutput {
                    violations: vec![],
                    harness_error: Some("cannot parse wire plan".into()),
                    stats: RunStats::default(),
                    choices: vec![],
                    trace: vec![],
                    plan: p.clone(),
                }
            }
        },
        None if spec.prop == Prop::C09 => gen::gen_c09_plan(spec.seed, spec.tier, spec.index, spec.batch_seed),
        None => gen::gen_wire_plan(spec.prop, spec.seed, spec.tier),
    };
    if spec.plan_only {
        return RunOutput {
            violations: vec![],
            harness_error: None,
            stats: RunStats::default(),
            choices: vec![],
            trace: vec![],
            plan: plan.to_json(),
        };
    }
    let mut res = wire::run_wire(&plan, spec.choices.clone(), spec.tracing);
    res.stats.fault_point = plan.fault_point;
    RunOutput {
        violations: res.violations,
        harness_error: res.harness_error,
        stats: res.stats,
        choices: res.choices,
        trace: res.trace,
        plan: plan.to_json(),
    }
}

fn has(st: &RunStats, p: &str) -> bool {
    st.probes.get(p).copied().unwrap_or(0) > 0
}

fn any(st: &RunStats, ps: &[&str]) -> bool {
    ps.iter().any(|p| has(st, p))
}

struct PropCfg {
    harness: HarnessFn,
    nontrivial: fn(&RunStats) -> bool,
    rule: &'static str,
    level: &'static str,
    quick: (u64, f64),
    thorough: (u64, f64),
    components_real: &'static [&'static str],
    components_stub: &'static [&'static str],
    assumptions: &'static [&'static str],
}

const WIRE_REAL: &[&str] = &[
    "aldrin_broker::Broker (run loop, all handlers)",
    "aldrin_broker::BrokerHandle",
    "aldrin_broker::Acceptor",
    "aldrin_broker::Connection (run, select, shutdown and drain paths)",
    "aldrin_core::transport::Buffered",
    "aldrin_core message types, value codec and epoch converter (on every forwarded payload)",
];
const WIRE_STUB: &[&str] = &[
    "network: SimTransport pipe (reliable, ordered, bounded, fault-injecting)",
    "clients: scripted wire-level actors",
    "entropy: uuid stream (hook H1), RandomState keys (getrandom interposition)",
];
const WIRE_ASSUME: &[&str] = &[
    "transports are reliable and ordered (AsyncTransport contract); loss/duplication/reordering inside a transport is not injected",
    "value codec and converter are trusted for payload equality (decoded Value equality)",
    "model semantics were cross-read against, not executed against, the conformance cases in /repo/conformance-tester/tests",
    "for requests of a connection whose task was dropped, the model mirrors the broker's reply-before-effect order",
    "broker built with features statistics + introspection + verif-hooks (the build without the optional introspection feature, whose three stub handlers only gate on the version, is not exercised)",
];

const API_REAL: &[&str] = &[
    "aldrin::ClientBuilder, Client (run, select, drain), Handle and every client-side type (Object, low_level::{Service, Call, Promise, Proxy, Event, PendingReply}, channel types in all six states, BusListener, Discoverer, LifetimeScope, Lifetime)",
    "aldrin_broker::Broker, BrokerHandle, Acceptor, Connection",
    "aldrin_core::channel::{Bounded, Unbounded} transports, transport::Buffered, message types, value codec and converter",
    "aldrin_core::tokio::TokioTransport + message::Packetizer + message (de)serializer over a simulated byte pipe with short reads/writes and Pending, for about a quarter of the clients",
];
const API_STUB: &[&str] = &[
    "applications: interpreted random programs, server / producer / consumer tasks",
    "transport wrapper Faulty (operation counter, fault injection, Pending injection, optional write-buffer emulation that only releases messages on flush, Connect2 version clamp) and, for some clients, the simulated message pipe / byte pipe",
    "entropy: uuid stream (hook H1), RandomState keys (getrandom interposition)",
];
const API_ASSUME: &[&str] = &[
    "transports are reliable and ordered",
    "older client versions are emulated by clamping the minor version in the client's Connect2 (Client gates its behaviour on the negotiated version)",
    "refusals by the broker (InvalidService, InvalidChannel, ...) are legitimate outcomes of racing programs and are not judged at this level; the broker-side model comparison runs alongside",
];

fn c05_harness(spec: &RunSpec) -> RunOutput {
    let api = match &spec.plan {
        Some(p) => p["harness"].as_str() == Some("api"),
        None => spec.index % 4 == 3,
    };
    if api {
        api::api_harness(spec)
    } else {
        wire_harness(spec)
    }
}

/// C02 / C03: every fourth run is an API-level run (real clients; call-heavy resp. registry-heavy
/// programs), so that the client library's half of the property is exercised too.
fn c02_c03_harness(spec: &RunSpec) -> RunOutput {
    let api = match &spec.plan {
        Some(p) => p["harness"].as_str() == Some("api"),
        None => spec.index % 4 == 3,
    };
    if api {
        api::api_harness(spec)
    } else {
        wire_harness(spec)
    }
}

/// C04 / C10: every fourth run is an API-level run (real clients, deterministic rounds).
fn c04_c10_harness(spec: &RunSpec) -> RunOutput {
    let api = match &spec.plan {
        Some(p) => p["harness"].as_str() == Some("api"),
        None => spec.index % 4 == 3,
    };
    if api {
        api::api_harness(spec)
    } else {
        wire_harness(spec)
    }
}

/// C12: every fifth run is an API-level run (real clients of mixed versions).
fn c12_harness(spec: &RunSpec) -> RunOutput {
    let api = match &spec.plan {
        Some(p) => p["harness"].as_str() == Some("api"),
        None => spec.index % 5 == 4,
    };
    if api {
        api::api_harness(spec)
    } else {
        wire_harness(spec)
    }
}

fn prop_cfg(prop: Prop) -> Option<PropCfg> {
    let wire = |nontrivial: fn(&RunStats) -> bool, rule: &'static str, level: &'static str| PropCfg {
        harness: wire_harness,
        nontrivial,
        rule,
        level,
        quick: (60_000, 25.0),
        thorough: (4_000_000, 480.0),
        components_real: WIRE_REAL,
        components_stub: WIRE_STUB,
        assumptions: WIRE_ASSUME,
    };
    Some(match prop {
        Prop::C02 => PropCfg { harness: c02_c03_harness, ..wire(
            |st| {
                has(st, "overlapping-calls")
                    && any(
                        st,
                        &[
                            "reply-forwarded",
                            "abort-pending-call",
                            "service-removed-with-pending-call",
                            "caller-disconnect-with-pending-call",
                        ],
                    )
            },
            "runs generated per seed by the C02 profile (calls, replies, aborts, destruction, disconnects from 2-4 connections of versions 1.14-1.20); a run is non-trivial when at least one call reached a terminal outcome while another call was pending; distinct = distinct broker linearisation signatures (hash of the sequence of (connection, message kind, result class) in dequeue order). Every fourth run is an API-level run: 2-4 real clients running call-heavy programs (calls awaited / dropped / cancelled against server tasks that answer, fail, abort or drop, while services, proxies and objects are destroyed or dropped), judged by the same broker model plus the client-side oracles (reply value, no hang at quiescence, no client error or panic)",
            "exploration",
        ) },
        Prop::C03 => PropCfg { harness: c02_c03_harness, ..wire(
            |st| {
                any(
                    st,
                    &[
                        "create-object-duplicate",
                        "destroy-object-foreign",
                        "recreate-after-destroy",
                        "object-cascade-2+-services",
                        "create-service-foreign",
                        "create-service-duplicate",
                        "disconnect-with-2+-objects",
                    ],
                )
            },
            "runs generated per seed by the C03 profile (create/destroy object/service over pools of 3x3 UUIDs with own/foreign/stale/never-issued cookies, queries, disconnects); non-trivial when a collision, foreign access, re-creation or cascade happened; distinct = distinct broker linearisation signatures. Every fourth run is an API-level run: 2-4 real clients churning objects and services through the client library (create / destroy / drop / re-create under pool UUIDs, with calls, find_object and discoverers as observers), judged by the same broker model plus the client-side oracles",
            "exploration",
        ) },
        Prop::C04 => PropCfg { harness: c04_c10_harness, ..wire(
            |st| {
                any(
                    st,
                    &[
                        "emit-to-2+",
                        "last-unsubscribe-forwarded",
                        "service-destroyed-with-subscribers",
                        "subscribe-twice",
                        "non-owner-emit",
                    ],
                )
            },
            "runs generated per seed by the C04 profile (subscribe/unsubscribe/subscribe-all/emit/destroy/disconnect); non-trivial when an event fanned out to 2+ connections, a 1->0 transition was forwarded, a service with subscribers was destroyed, or a non-owner emitted; distinct = distinct broker linearisation signatures",
            "exploration",
        ) },
        Prop::C05 => PropCfg { harness: c05_harness, ..wire(
            |st| {
                any(
                    st,
                    &[
                        "credit-hit-zero",
                        "replenish-on-send",
                        "replenish-on-grant",
                        "overrun-cut-off",
                        "capacity-overflow",
                        "claim-already-claimed",
                    ],
                )
            },
            "runs generated per seed by the C05 profile (create/claim/close/send-item/add-capacity/disconnect, capacities 0,1,3..6,16,u32::MAX-1,u32::MAX); non-trivial when credit reached zero, was replenished, a sender overran, a grant overflowed or a claim was refused; distinct = distinct broker linearisation signatures",
            "exploration",
        ) },
        Prop::C09 => wire(
            |st| has(st, "conn-removed-with-state"),
            "runs generated per seed by the mixed profile with an ending (clean shutdown, transport error, EOF, shutdown_connection, dropped task) at a random script position of each connection with probability 0.4; non-trivial when a connection that owned or subscribed to something was removed; distinct = distinct broker linearisation signatures",
            "fault_enumeration",
        ),
        Prop::C10 => PropCfg { harness: c04_c10_harness, ..wire(
            |st| any(st, &["current-enumeration-nonempty", "bus-event-delivered"]),
            "runs generated per seed by the C10 profile (listener create/destroy, all six filter shapes over the UUID pools, start/stop with the three scopes, object/service churn, disconnects); non-trivial when a current enumeration was non-empty or a new-event was delivered; distinct = distinct broker linearisation signatures",
            "exploration",
        ) },
        Prop::C11 => wire(
            |st| any(st, &["wrong-direction-message", "handler-returned-err", "gate-closed"]),
            "1-2 abusing connections sending arbitrary well-formed messages (all kinds incl. wrong-direction ones, stale/foreign/never-issued cookies and serials, garbage payloads) next to conformant connections and a late-joining probe; non-trivial when the broker had to refuse or close an abuser; distinct = distinct broker linearisation signatures",
            "exploration",
        ),
        Prop::C12 => PropCfg { harness: c12_harness, ..wire(
            |st| any(st, &["cross-epoch-payload", "gate-closed", "handshake-incompatible", "call2-downgraded-for-old-callee", "old-callee-abort-suppressed"]),
            "connections of every version 1.14-1.20 (and requests outside the range) running the mixed profile; non-trivial when a payload crossed epochs, a version gate closed a connection, a handshake was refused or a call/abort was down-translated; distinct = distinct broker linearisation signatures",
            "exploration",
        ) },
        Prop::C06 | Prop::C15 | Prop::C19 => {
            let (rule, level): (&'static str, &'static str) = match prop {
                Prop::C06 => ("non-trivial = more than 20 broker steps and at least one call value, event or channel item was checked end to end. 2-4 real clients (versions 1.14-1.20, unbounded / bounded(1,2,4,16) core::channel transports or the simulated pipe) each running 1-3 application tasks that interpret random closed programs over the public API (objects, services with server tasks, proxies, calls awaited/dropped/cancelled, events, channels in every state incl. unbind/bind/claim, sessions with producer and consumer, bus listeners, discoverers, lifetimes, introspection register/submit/query, sync); distinct = distinct broker linearisation signatures", "exploration"),
                Prop::C15 => ("non-trivial = more than 20 broker steps and the planned termination cause was actually applied / the injected fault actually fired. The C06 programs plus one termination of a victim client per run: transport error or EOF injected at transport operation index k (k = a per-run fraction of the victim's operation count in a fault-free execution of the same plan), or Handle::shutdown / all handles dropped / broker shutdown / shutdown_connection applied when the victim's transport has performed k operations; 12 (quick) or 96 (thorough) (cause, k, schedule) variants per generated program; non-trivial when the broker processed more than 20 requests; distinct = distinct broker linearisation signatures", "fault_enumeration"),
                _ => ("non-trivial = more than 20 broker steps and at least one discoverer, lifetime or find result was compared with the bus state. Mutator tasks create/destroy objects and services over 3x3 UUID pools (re-creation under the same UUID, partial service sets) while observer tasks run discoverers with 1-3 entries of all four kinds, restart them, consume events at random rates, and use find_object / wait_for_object / lifetime scopes; views are compared with the bus state at quiescence; non-trivial when the broker processed more than 20 requests; distinct = distinct broker linearisation signatures", "exploration"),
            };
            PropCfg {
                harness: api::api_harness,
                nontrivial: |st| st.nontrivial,
                rule,
                level,
                quick: (40_000, 25.0),
                thorough: (3_000_000, 480.0),
                components_real: API_REAL,
                components_stub: API_STUB,
                assumptions: API_ASSUME,
            }
        }
        Prop::C14 => PropCfg {
            harness: io::io_harness,
            nontrivial: |st| st.nontrivial,
            rule: "message sequences (5-byte frames up to beyond the 64 KiB reserve step; one >4 MiB frame per ~400 thorough runs) pushed (a) through the real Packetizer via extend_from_slice or spare_capacity_mut+bytes_written in PRNG-sized pieces down to 1 byte, (b) through two real TokioTransports joined by a simulated byte pipe whose every poll_read/poll_write/poll_flush result (size, Pending, capacity 1..64 KiB, EOF at a byte offset, zero-length write, I/O error at the k-th operation) is drawn from the per-run PRNG; non-trivial when at least 2 messages were sent and at least one short read/write, Pending or full pipe occurred; distinct = distinct sequences of I/O return sizes",
            level: "exploration",
            quick: (150_000, 25.0),
            thorough: (20_000_000, 480.0),
            components_real: &[
                "aldrin_core::message::Packetizer (both input interfaces)",
                "aldrin_core::tokio::TokioTransport (receive_poll, send_poll_ready, send_start, send_poll_flush)",
                "aldrin_core::transport::AsyncTransportExt futures",
                "message serializer / deserializer",
            ],
            components_stub: &["the I/O object: simulated byte pipe implementing tokio::io::AsyncRead + AsyncWrite", "sender and receiver tasks"],
            assumptions: &["the I/O object is a reliable ordered byte stream (bytes are neither lost nor reordered inside the pipe)", "one direction per transport pair is exercised at a time"],
        },
        _ => return None,
    })
}

fn parse_args() -> (Vec<String>, std::collections::HashMap<String, String>) {
    let mut pos = Vec::new();
    let mut opts = std::collections::HashMap::new();
    let mut it = std::env::args().skip(1);
    while let Some(a) = it.next() {
        if let Some(k) = a.strip_prefix("--") {
            let v = it.next().unwrap_or_default();
            opts.insert(k.to_string(), v);
        } else {
            pos.push(a);
        }
    }
    (pos, opts)
}

fn write_replay(prop: Prop, tier: Tier, base_seed: u64, f: &Found, minimised: bool) -> String {
    let dir = format!("{}/replays", verif_dir());
    let _ = std::fs::create_dir_all(&dir);
    let mut h = rng::Fnv::new();
    h.str(&f.plan.to_string());
    for c in &f.choices {
        h.u64(*c as u64);
    }
    let path = format!("{dir}/{}-{}-{:08x}.json", prop.name(), f.seed, h.0 as u32);
    let doc = json!({
        "property": prop.name(),
        "tier": tier.name(),
        "base_seed": base_seed.to_string(),
        "run_index": f.index,
        "run_seed": f.seed.to_string(),
        "minimised": minimised,
        "plan": f.plan,
        "choices": f.choices,
        "violation": { "rule": f.violation.rule, "detail": f.violation.detail },
        "trace_hash": format!("{:016x}", f.trace_hash),
    });
    std::fs::write(&path, serde_json::to_string_pretty(&doc).unwrap()).expect("write replay");
    path
}

/// Reach probes every batch of a property is expected to hit; the ones still at zero are listed in
/// the evidence (and printed in the thorough tier) so that a blind spot of the workload is visible.
fn expected_probes(prop: Prop) -> &'static [&'static str] {
    match prop {
        Prop::C02 => &["reply-forwarded", "abort-pending-call", "reply-after-abort", "service-removed-with-pending-call", "caller-disconnect-with-pending-call", "non-owner-reply", "old-callee-abort-suppressed", "self-call", "call-duplicate-serial", "overlapping-calls", "call2-downgraded-for-old-callee", "reply-unknown-serial", "abort-unknown-serial"],
        Prop::C03 => &["create-object-duplicate", "destroy-object-foreign", "destroy-object-invalid", "recreate-after-destroy", "object-cascade-2+-services", "disconnect-with-2+-objects", "create-service-foreign", "create-service-duplicate", "create-service-invalid-object", "destroy-service-foreign", "destroy-service-invalid", "create-service2-bad-info"],
        Prop::C04 => &["emit-to-2+", "last-unsubscribe-forwarded", "first-subscribe-forwarded", "last-subscriber-disconnects", "last-all-subscriber-disconnects", "service-destroyed-with-subscribers", "subscribe-twice", "non-owner-emit", "subscribe-all-not-supported", "subscribe-without-serial"],
        Prop::C05 => &["credit-hit-zero", "replenish-on-send", "replenish-on-grant", "overrun-cut-off", "capacity-overflow", "claim-already-claimed", "claim-closed-end", "claim-invalid-channel", "close-unclaimed-end", "close-foreign-end", "send-to-unclaimed-receiver", "send-to-closed-receiver", "both-ends-same-connection", "owner-disconnect-closes-channel-end", "add-capacity-foreign", "send-item-foreign-sender", "channel-session", "channel-item-delivered"],
        Prop::C09 => &["conn-removed-with-state", "send-to-dropped-receiver-failed", "input-from-removed-connection", "caller-disconnect-with-pending-call", "service-removed-with-pending-call", "owner-disconnect-closes-channel-end", "last-subscriber-disconnects", "create-channel-from-dropped-task", "introspection-query-continued-after-disconnect", "handler-returned-err", "connection-id-reused"],
        Prop::C10 => &["current-enumeration-nonempty", "bus-event-delivered", "bus-event-deduplicated-per-connection", "filter-removed", "start-while-started", "foreign-listener-cookie"],
        Prop::C11 => &["wrong-direction-message", "handler-returned-err", "gate-closed", "input-from-removed-connection", "introspection-reply-unknown-serial", "introspection-reply-from-wrong-connection", "call-duplicate-serial", "subscribe-without-serial", "create-service2-bad-info"],
        Prop::C12 => &["handshake-ok", "handshake-incompatible", "gate-closed", "cross-epoch-payload", "call2-downgraded-for-old-callee", "old-callee-abort-suppressed", "subscribe-all-not-supported", "payload-at-depth-limit", "payload-all-kinds"],
        Prop::C14 => &["short-read", "short-write", "pipe-full-backpressure", "flush-completed", "frame>=8KiB-backpressure-boundary", "frame>=64KiB-reserve-step", "packetizer-spare-interface", "packetizer-extend-interface", "single-byte-chunks", "buffered-in-front", "transport-pair-run"],
        Prop::C06 => &["call-served", "call-value-checked", "call-dropped-at-once", "call-cancelled-mid-flight", "call-refused-or-aborted", "promise-held-until-teardown", "event-received", "proxy-dropped", "channel-session", "channel-item-delivered", "claim-ok", "claim-fails", "claim-cancelled", "establish-cancelled", "unbound-end-bound", "receiver-closed-early", "send-refused", "listener-started", "bus-event-received", "discoverer-created", "object-found", "lifetime-bound", "event-awaited", "bus-event-awaited", "held-promise-aborted", "receiver-closed-polled-while-open", "lost-wakeup-probe-evaluated", "abort-oracle-evaluated", "introspection-answered-by-peer", "introspection-answered-locally", "introspection-unavailable"],
        Prop::C15 => &["call-served", "channel-session", "listener-started", "discoverer-created", "conn-removed-with-state"],
        Prop::C19 => &["discoverer-created", "discoverer-checked", "discoverer-restarted", "object-found", "object-not-found", "lifetime-bound", "lifetime-checked", "lifetime-ended-observed", "recreate-after-destroy", "object-cascade-2+-services", "discoverer-event-awaited"],
    }
}

fn write_evidence(prop: Prop, tier: Tier, base_seed: u64, cfg: &PropCfg, out: &BatchOut, violations: u64) {
    // The seeded-defect tools (tools/*.sh) run the checks on a deliberately broken /repo; they point
    // this elsewhere so that such a run can never replace the evidence of the unchanged tree.
    let dir = std::env::var("VERIF_EVIDENCE_DIR").unwrap_or_else(|_| format!("{}/evidence", verif_dir()));
    let _ = std::fs::create_dir_all(&dir);
    let rph = if out.wall_s > 0.0 {
        out.evaluations as f64 / out.wall_s * 3600.0
    } else {
        0.0
    };
    let zero_probes: Vec<&str> = expected_probes(prop)
        .iter()
        .copied()
        .filter(|p| out.probes.get(*p).copied().unwrap_or(0) == 0)
        .collect();
    if tier == Tier::Thorough {
        for p in &zero_probes {
            println!("warning: reach probe '{p}' was not hit in this batch");
        }
    }
    let doc = json!({
        "property_id": prop.name(),
        "tier": tier.name(),
        "seed": base_seed,
        "level": cfg.level,
        "wall_s": out.wall_s,
        "violations": violations,
        "coverage": {
            "evaluations": out.evaluations,
            "distinct_nontrivial": out.distinct.len(),
            "nontrivial_runs": out.nontrivial_runs,
            "rule": cfg.rule,
            "samples": out.samples,
            "runs_per_hour": rph,
            "seeds": { "base": base_seed, "first_run_seed": out.first_seed.to_string(), "last_run_seed": out.last_seed.to_string() },
            "simulated_time_unit": "executor steps (the code has no clock; one step = one scheduling decision)",
            "sim_steps_total": out.steps_total,
            "sim_steps_max": out.steps_max,
            "task_polls_total": out.polls_total,
            "broker_steps_total": out.broker_steps_total,
            "messages_total": out.msgs_total,
            "workload_messages_per_run": if out.evaluations > 0 { out.msgs_total as f64 / out.evaluations as f64 } else { 0.0 },
            "faults_fired": out.faults,
            "fault_points_enumerated": out.fault_points.len(),
            "fault_points_total_of_the_programs_touched": out.fault_bases.values().sum::<u64>(),
            "fault_programs": out.fault_bases.len(),
            "probes": out.probes,
            "probes_at_zero": zero_probes,
            "distinct_schedules": out.schedules.len(),
            "scheduler_mix": out.sched_mix,
            "replayed_for_determinism": out.replayed_for_determinism,
            "zombies_at_quiescence": out.zombies,
            "step_cap_hits": out.step_cap_hits,
            "known_findings_hit": out.known_hits.iter().map(|(k, v)| (k.clone(), json!({"runs": v.0, "what": v.1}))).collect::<serde_json::Map<_, _>>(),
            "other_properties_rule_hits": out.foreign_rule_hits,
            "components": { "real": cfg.components_real, "stub": cfg.components_stub },
            "exhaustive": false,
        },
        "assumptions": cfg.assumptions,
    });
    let path = format!("{dir}/{}.json", prop.name());
    std::fs::write(&path, serde_json::to_string_pretty(&doc).unwrap()).expect("write evidence");
}

fn cmd_run(prop: Prop, tier: Tier, opts: &std::collections::HashMap<String, String>) -> i32 {
    let Some(cfg) = prop_cfg(prop) else {
        eprintln!("HARNESS-ERROR: no check for {}", prop.name());
        return 2;
    };
    let base_seed: u64 = opts
        .get("seed")
        .cloned()
        .or_else(|| std::env::var("VERIF_SEED").ok())
        .and_then(|s| s.parse().ok())
        .unwrap_or(1);
    let (mut runs, mut secs) = match tier {
        Tier::Quick => cfg.quick,
        Tier::Thorough => cfg.thorough,
    };
    if let Some(r) = opts.get("runs").and_then(|s| s.parse().ok()) {
        runs = r;
    }
    if let Some(s) = opts.get("secs").and_then(|s| s.parse().ok()) {
        secs = s;
    }
    let workers = opts
        .get("workers")
        .and_then(|s| s.parse().ok())
        .unwrap_or_else(|| std::thread::available_parallelism().map(|n| n.get()).unwrap_or(8));

    println!("property={} tier={} VERIF_SEED={} max_runs={} max_secs={} workers={}", prop.name(), tier.name(), base_seed, runs, secs, workers);
    let known = runner::load_known_findings(&format!("{}/known_findings.json", verif_dir()));

    let bcfg = BatchCfg {
        prop,
        tier,
        base_seed,
        max_runs: runs,
        max_secs: secs,
        workers,
        harness: cfg.harness,
        nontrivial: cfg.nontrivial,
        first_index: 0,
        directed: directed::plans(prop),
        only: opts.get("only").and_then(|s| s.parse().ok()),
    };
    let out = runner::run_batch(&bcfg, &known);
    let no_minimise = opts.contains_key("no-minimise");

    if let Some(e) = &out.harness_error {
        eprintln!("HARNESS-ERROR: {e}");
        return 2;
    }

    for (id, (n, what)) in &out.known_hits {
        println!("KNOWN-FINDING: property={} {} [{}; {} runs]", prop.name(), what, id, n);
    }

    let mut code = 0;
    let mut violations = 0;
    if let Some(found) = &out.found {
        // Confirm by re-execution from plan + choices, then minimise, then confirm again.
        runner::inflight::set(workers, 'M', found.index);
        match runner::confirm(cfg.harness, prop, tier, found, false) {
            Err(e) => {
                let path = write_replay(prop, tier, base_seed, found, false);
                eprintln!("HARNESS-ERROR: {e} (unconfirmed plan and choices kept in {path})");
                return 2;
            }
            Ok(_) => {
                let min = if no_minimise { None } else { shrink::minimise(cfg.harness, prop, tier, found, 1500) };
                let minimised = min.is_some();
                let f = min.as_ref().unwrap_or(found);
                let path = write_replay(prop, tier, base_seed, f, minimised);
                println!("violation rule={} run_index={} run_seed={}", f.violation.rule, f.index, f.seed);
                println!("detail: {}", f.violation.detail);
                println!("VIOLATION property={} replay={}", prop.name(), path);
                violations = 1;
                code = 1;
            }
        }
    }

    write_evidence(prop, tier, base_seed, &cfg, &out, violations);
    println!(
        "runs={} nontrivial={} distinct_nontrivial={} steps_total={} wall_s={:.1} runs_per_hour={:.0} foreign_rule_hits={:?}",
        out.evaluations,
        out.nontrivial_runs,
        out.distinct.len(),
        out.steps_total,
        out.wall_s,
        out.evaluations as f64 / out.wall_s.max(1e-9) * 3600.0,
        out.foreign_rule_hits
    );
    code
}

use runner::died_abnormally;

fn panic_lines(stderr: &str) -> String {
    let mut out = Vec::new();
    let mut lines = stderr.lines();
    while let Some(l) = lines.next() {
        if l.starts_with("thread '") && l.contains("panicked at") {
            let msg = lines.next().unwrap_or("");
            out.push(format!("{} {}", l.trim_end_matches(':'), msg));
        }
    }
    out.dedup();
    out.join(" | ")
}

/// `run`: executes the batch in a child process. A run that makes the process abort (a second
/// panic while unwinding, e.g. a failing assertion in a destructor) cannot be caught in-process;
/// the parent then finds the run among the ones that were in flight, by re-executing each alone in
/// its own child, and reports it with a replay file like any other violation.
fn cmd_supervise(prop: Prop, tier: Tier, opts: &std::collections::HashMap<String, String>) -> i32 {
    let exe = std::env::current_exe().expect("current_exe");
    let inflight = format!("{}/replays/.inflight-{}-{}", verif_dir(), prop.name(), std::process::id());
    let _ = std::fs::create_dir_all(format!("{}/replays", verif_dir()));
    let _ = std::fs::write(&inflight, b"");
    let child_args = |extra: &[String]| {
        let mut a = vec!["run-inner".to_string(), prop.name().to_string(), "--tier".into(), tier.name().to_string()];
        for (k, v) in opts {
            if k != "tier" {
                a.push(format!("--{k}"));
                a.push(v.clone());
            }
        }
        a.extend_from_slice(extra);
        a
    };
    let st = std::process::Command::new(&exe).args(child_args(&[])).env("VERIF_INFLIGHT", &inflight).status();
    let st = match st {
        Ok(s) => s,
        Err(e) => {
            eprintln!("HARNESS-ERROR: cannot start the batch process: {e}");
            return 2;
        }
    };
    let slots = std::fs::read_to_string(&inflight).unwrap_or_default();
    let _ = std::fs::remove_file(&inflight);
    if !died_abnormally(&st) {
        return st.code().unwrap_or(2);
    }
    eprintln!("the batch process died ({st}); looking for the run that killed it");
    let mut candidates: Vec<u64> = Vec::new();
    let mut minimising = None;
    for line in slots.lines() {
        let mut it = line.split_whitespace();
        match (it.next(), it.next().and_then(|x| x.parse::<u64>().ok())) {
            (Some("R"), Some(i)) => candidates.push(i),
            (Some("M"), Some(i)) => minimising = Some(i),
            _ => {}
        }
    }
    candidates.sort();
    candidates.dedup();
    // Run numbers are handed out consecutively: everything below the in-flight ones had completed.
    let completed_lower_bound = candidates.first().copied().unwrap_or(0);
    let started = std::time::Instant::now();
    if let Some(i) = minimising {
        // The violation was found and confirmed; a shrinking candidate killed the process.
        candidates = vec![i];
    }
    for i in candidates {
        let out = std::process::Command::new(&exe)
            .args(child_args(&["--only".into(), i.to_string(), "--no-minimise".into(), "x".into(), "--workers".into(), "1".into()]))
            .output();
        let Ok(out) = out else { continue };
        if !died_abnormally(&out.status) {
            if out.status.code() == Some(1) {
                // An ordinary violation (reported with its own replay file by the child).
                print!("{}", String::from_utf8_lossy(&out.stdout));
                return 1;
            }
            continue;
        }
        // Culprit: build its replay file from the generated plan (generation only, no execution).
        let Some(cfg) = prop_cfg(prop) else { return 2 };
        let base_seed: u64 = opts
            .get("seed")
            .cloned()
            .or_else(|| std::env::var("VERIF_SEED").ok())
            .and_then(|s| s.parse().ok())
            .unwrap_or(1);
        let directed = directed::plans(prop);
        let seed = rng::run_seed(base_seed, i);
        let spec = RunSpec {
            prop,
            tier,
            seed,
            index: i,
            batch_seed: base_seed,
            plan: directed.get(i as usize).cloned(),
            choices: None,
            tracing: false,
            plan_only: true,
        };
        let planned = runner::execute(cfg.harness, spec);
        let detail = format!(
            "the process aborted while executing this run (a panic that cannot unwind, e.g. inside a destructor during cleanup): {}",
            panic_lines(&String::from_utf8_lossy(&out.stderr))
        );
        let found = runner::Found {
            index: i,
            seed,
            plan: planned.plan,
            choices: Vec::new(),
            violation: model::Violation::new("process-abort", &[prop], detail.clone()),
            trace_hash: 0,
        };
        // Minimise with child processes (a candidate is kept if it kills its process again).
        let min = shrink::minimise(cfg.harness, prop, tier, &found, 250);
        let minimised = min.is_some();
        let found = min.unwrap_or(found);
        let path = write_replay(prop, tier, base_seed, &found, minimised);
        println!("violation rule=process-abort run_index={i} run_seed={seed}");
        println!("detail: {detail}");
        println!("VIOLATION property={} replay={}", prop.name(), path);
        // What is known about the batch that died: a lower bound on the completed runs and the
        // culprit itself; distinct / non-trivial counts died with the process (0 = not measured).
        let mut bo = runner::BatchOut::default();
        bo.evaluations = completed_lower_bound + 1;
        bo.wall_s = started.elapsed().as_secs_f64();
        bo.samples.push(json!({"run_index": i, "seed": seed.to_string(), "plan": found.plan, "note": "the run that aborted the process"}));
        write_evidence(prop, tier, base_seed, &cfg, &bo, 1);
        return 1;
    }
    eprintln!("HARNESS-ERROR: the batch process died ({st}) and no in-flight run reproduces that alone");
    2
}

fn cmd_replay(path: &str) -> i32 {
    let Ok(text) = std::fs::read_to_string(path) else {
        eprintln!("HARNESS-ERROR: cannot read {path}");
        return 2;
    };
    let Ok(doc) = serde_json::from_str::<serde_json::Value>(&text) else {
        eprintln!("HARNESS-ERROR: {path} is not JSON");
        return 2;
    };
    let Some(prop) = doc["property"].as_str().and_then(Prop::parse) else {
        eprintln!("HARNESS-ERROR: no property in {path}");
        return 2;
    };
    let Some(cfg) = prop_cfg(prop) else {
        return 2;
    };
    if doc["violation"]["rule"].as_str() == Some("process-abort") && std::env::var("VERIF_REPLAY_INNER").is_err() {
        // Replayed in a child process: reproduction means that the child dies again.
        let exe = std::env::current_exe().expect("current_exe");
        let out = std::process::Command::new(exe).args(["replay", path]).env("VERIF_REPLAY_INNER", "1").output();
        return match out {
            Ok(o) if died_abnormally(&o.status) => {
                println!("reproduced: rule=process-abort ({})", o.status);
                println!("detail: {}", panic_lines(&String::from_utf8_lossy(&o.stderr)));
                println!("VIOLATION property={} replay={}", prop.name(), path);
                1
            }
            Ok(o) => {
                eprintln!("HARNESS-ERROR: replay did not abort (exit {:?})", o.status.code());
                2
            }
            Err(e) => {
                eprintln!("HARNESS-ERROR: cannot start the replay process: {e}");
                2
            }
        };
    }
    let tier = if doc["tier"].as_str() == Some("thorough") {
        Tier::Thorough
    } else {
        Tier::Quick
    };
    let choices: Vec<u32> = doc["choices"]
        .as_array()
        .map(|a| a.iter().filter_map(|x| x.as_u64().map(|x| x as u32)).collect())
        .unwrap_or_default();
    let seed: u64 = doc["run_seed"].as_str().and_then(|s| s.parse().ok()).unwrap_or(0);
    let spec = RunSpec {
        prop,
        tier,
        seed,
        index: doc["run_index"].as_u64().unwrap_or(0),
        batch_seed: 0,
        plan: Some(doc["plan"].clone()),
        choices: if choices.is_empty() { None } else { Some(choices) },
        tracing: true,
        plan_only: false,
    };
    let res = runner::execute(cfg.harness, spec);
    if let Some(e) = res.harness_error {
        eprintln!("HARNESS-ERROR: {e}");
        return 2;
    }
    for line in &res.trace {
        println!("{line}");
    }
    if std::env::var("VERIF_DEBUG_CHOICES").is_ok() {
        let recorded: Vec<u32> = doc["choices"]
            .as_array()
            .map(|a| a.iter().filter_map(|x| x.as_u64().map(|x| x as u32)).collect())
            .unwrap_or_default();
        let first = recorded.iter().zip(res.choices.iter()).position(|(a, b)| a != b);
        println!("choices: recorded {} executed {} first difference {:?}", recorded.len(), res.choices.len(), first);
        println!("executed: {:?}", res.choices);
    }
    let want_rule = doc["violation"]["rule"].as_str().unwrap_or("");
    let want_hash = doc["trace_hash"].as_str().unwrap_or("");
    let got_hash = format!("{:016x}", res.stats.trace_hash);
    match res.violations.iter().find(|v| v.rule == want_rule) {
        Some(v) if got_hash == want_hash || want_rule == "liveness.poll-never-returns" => {
            println!("reproduced: rule={} trace_hash={}", v.rule, got_hash);
            println!("detail: {}", v.detail);
            println!("VIOLATION property={} replay={}", prop.name(), path);
            1
        }
        Some(v) => {
            eprintln!("HARNESS-ERROR: rule {} reproduced but the trace hash differs ({} vs {})", v.rule, got_hash, want_hash);
            2
        }
        None => {
            eprintln!(
                "HARNESS-ERROR: replay did not reproduce rule {want_rule}; got {:?}",
                res.violations.iter().map(|v| &v.rule).collect::<Vec<_>>()
            );
            2
        }
    }
}

/// Every seed twice on different threads; full trace hashes must agree.
fn cmd_selftest_determinism(opts: &std::collections::HashMap<String, String>) -> i32 {
    let n: u64 = opts.get("seeds").and_then(|s| s.parse().ok()).unwrap_or(200);
    let base: u64 = opts.get("seed").and_then(|s| s.parse().ok()).unwrap_or(1);
    let mut bad = 0;
    let props = [Prop::C02, Prop::C03, Prop::C04, Prop::C05, Prop::C06, Prop::C09, Prop::C10, Prop::C11, Prop::C12, Prop::C14, Prop::C15, Prop::C19];
    let mut table = Vec::new();
    for prop in props {
        let Some(cfg) = prop_cfg(prop) else { continue };
        for i in 0..n {
            let seed = rng::run_seed(base, i);
            let spec = RunSpec {
                prop,
                tier: Tier::Quick,
                seed,
                index: i,
                batch_seed: base,
                plan: None,
                choices: None,
                tracing: true,
                plan_only: false,
            };
            let a = runner::execute(cfg.harness, spec.clone());
            let b = runner::execute(cfg.harness, spec.clone());
            if a.stats.trace_hash != b.stats.trace_hash || a.trace != b.trace {
                bad += 1;
                eprintln!("non-deterministic: {} seed {seed}", prop.name());
            }
            // Record/replay equivalence: the expanded plan plus the recorded choice list must
            // reproduce the very same execution (this is what every replay file relies on).
            if !a.choices.is_empty() {
                let mut rspec = spec;
                rspec.plan = Some(a.plan.clone());
                rspec.choices = Some(a.choices.clone());
                let c = runner::execute(cfg.harness, rspec);
                if c.stats.trace_hash != a.stats.trace_hash {
                    bad += 1;
                    eprintln!("replay differs from the recorded run: {} seed {seed}", prop.name());
                }
            }
            table.push(format!("{} {} {:016x}", prop.name(), seed, a.stats.trace_hash));
        }
    }
    if let Some(p) = opts.get("dump") {
        std::fs::write(p, table.join("\n")).expect("write dump");
    }
    if bad > 0 {
        eprintln!("HARNESS-ERROR: {bad} non-deterministic runs");
        2
    } else {
        println!("determinism: {} runs executed twice and replayed from their recorded plan and choices, all traces identical", table.len());
        0
    }
}

fn main() {
    exec::install_panic_hook();
    let (pos, opts) = parse_args();
    let code = match pos.first().map(String::as_str) {
        Some("run") => {
            let prop = pos.get(1).and_then(|s| Prop::parse(s));
            let tier = match opts.get("tier").map(String::as_str) {
                Some("thorough") => Tier::Thorough,
                _ => Tier::Quick,
            };
            match prop {
                Some(p) => cmd_supervise(p, tier, &opts),
                None => {
                    eprintln!("usage: aldrin-sim run <PROPERTY> --tier quick|thorough");
                    2
                }
            }
        }
        Some("run-inner") => {
            let prop = pos.get(1).and_then(|s| Prop::parse(s));
            let tier = match opts.get("tier").map(String::as_str) {
                Some("thorough") => Tier::Thorough,
                _ => Tier::Quick,
            };
            match prop {
                Some(p) => cmd_run(p, tier, &opts),
                None => 2,
            }
        }
        Some("replay") => match pos.get(1) {
            Some(p) => cmd_replay(p),
            None => 2,
        },
        Some("selftest-determinism") => cmd_selftest_determinism(&opts),
        _ => {
            eprintln!("usage: aldrin-sim run <PROPERTY> --tier quick|thorough | replay <file> | selftest-determinism");
            2
        }
    };
    std::process::exit(code);
}
