// Included into model.rs: one handler per request kind (DESIGN.md appendix A).

impl Model {
    /// Returns false when the broker must close `c` (protocol violation or failed reply).
    fn handle(&mut self, c: ConnId, msg: Message, snap: &BrokerSnapshot) -> bool {
        let v = self.conns[&c].version;
        match msg {
            Message::CreateObject(req) => self.create_object(c, req, snap),
            Message::DestroyObject(req) => self.destroy_object(c, req),
            Message::CreateService(req) => {
                let info = ServiceInfo::new(req.version);
                self.create_service(c, req.serial, req.object_cookie, req.uuid, info, snap)
            }
            Message::CreateService2(req) => {
                if v < ProtocolVersion::V1_17 {
                    self.probe("gate-closed");
                    return false;
                }
                self.create_service2(c, req, snap)
            }
            Message::DestroyService(req) => self.destroy_service(c, req),
            Message::CallFunction(req) => self.call(
                c,
                req.serial,
                req.service_cookie,
                req.function,
                None,
                req.value,
                snap,
            ),
            Message::CallFunction2(req) => {
                if v < ProtocolVersion::V1_19 {
                    self.probe("gate-closed");
                    return false;
                }
                self.call(
                    c,
                    req.serial,
                    req.service_cookie,
                    req.function,
                    req.version,
                    req.value,
                    snap,
                )
            }
            Message::CallFunctionReply(req) => {
                self.call_reply(c, req);
                true
            }
            Message::AbortFunctionCall(req) => {
                if v < ProtocolVersion::V1_16 {
                    self.probe("gate-closed");
                    return false;
                }
                if let Some(&callee_serial) = self.conns[&c].calls.get(&req.serial) {
                    let call = &self.calls[&callee_serial];
                    let callee = self.owner_of_obj(call.obj_uuid);
                    self.probe("abort-pending-call");
                    self.pending_abort.push((callee_serial, callee));
                } else {
                    self.probe("abort-unknown-serial");
                }
                true
            }
            Message::SubscribeEvent(req) => self.subscribe_event(c, req),
            Message::UnsubscribeEvent(req) => {
                if self.svcs.contains_key(&req.service_cookie) {
                    let owner = self.owner_of_obj(self.svcs[&req.service_cookie].obj_uuid);
                    if self.unsubscribe_event_of(c, req.service_cookie, req.event) {
                        self.probe("last-unsubscribe-forwarded");
                        self.send(owner, req, None);
                    }
                }
                true
            }
            Message::EmitEvent(req) => {
                self.emit_event(c, req);
                true
            }
            Message::QueryServiceVersion(req) => {
                let result = match self.svcs.get(&req.cookie) {
                    Some(svc) => QueryServiceVersionResult::Ok(svc.info.version()),
                    None => QueryServiceVersionResult::InvalidService,
                };
                self.send(
                    c,
                    QueryServiceVersionReply {
                        serial: req.serial,
                        result,
                    },
                    None,
                )
            }
            Message::QueryServiceInfo(req) => {
                if v < ProtocolVersion::V1_17 {
                    self.probe("gate-closed");
                    return false;
                }
                let result = match self.svcs.get(&req.cookie) {
                    Some(svc) => QueryServiceInfoResult::Ok(
                        SerializedValue::serialize(svc.info).expect("serialize info"),
                    ),
                    None => QueryServiceInfoResult::InvalidService,
                };
                self.send(
                    c,
                    QueryServiceInfoReply {
                        serial: req.serial,
                        result,
                    },
                    None,
                )
            }
            Message::SubscribeService(req) => {
                if v < ProtocolVersion::V1_18 {
                    self.probe("gate-closed");
                    return false;
                }
                if self.svcs.contains_key(&req.service_cookie) {
                    if !self.send(
                        c,
                        SubscribeServiceReply {
                            serial: req.serial,
                            result: SubscribeServiceResult::Ok,
                        },
                        None,
                    ) {
                        return false;
                    }
                    self.svcs
                        .get_mut(&req.service_cookie)
                        .unwrap()
                        .subs
                        .insert(c);
                    true
                } else {
                    self.send(
                        c,
                        SubscribeServiceReply {
                            serial: req.serial,
                            result: SubscribeServiceResult::InvalidService,
                        },
                        None,
                    )
                }
            }
            Message::UnsubscribeService(req) => {
                if v < ProtocolVersion::V1_18 {
                    self.probe("gate-closed");
                    return false;
                }
                if let Some(svc) = self.svcs.get_mut(&req.service_cookie) {
                    svc.subs.remove(&c);
                }
                true
            }
            Message::SubscribeAllEvents(req) => {
                if v < ProtocolVersion::V1_18 {
                    self.probe("gate-closed");
                    return false;
                }
                self.subscribe_all(c, req)
            }
            Message::UnsubscribeAllEvents(req) => {
                if v < ProtocolVersion::V1_18 {
                    self.probe("gate-closed");
                    return false;
                }
                self.unsubscribe_all(c, req)
            }
            Message::CreateChannel(req) => self.create_channel(c, req, snap),
            Message::CloseChannelEnd(req) => self.close_channel_end(c, req),
            Message::ClaimChannelEnd(req) => self.claim_channel_end(c, req),
            Message::AddChannelCapacity(req) => {
                self.add_capacity(c, req, snap);
                true
            }
            Message::SendItem(req) => self.send_item(c, req, snap),
            Message::Sync(req) => self.send(c, SyncReply { serial: req.serial }, None),
            Message::CreateBusListener(req) => self.create_listener(c, req, snap),
            Message::DestroyBusListener(req) => {
                let own = matches!(self.listeners.get(&req.cookie), Some(l) if l.conn == c);
                if own {
                    if !self.send(
                        c,
                        DestroyBusListenerReply {
                            serial: req.serial,
                            result: DestroyBusListenerResult::Ok,
                        },
                        None,
                    ) {
                        return false;
                    }
                    self.listeners.remove(&req.cookie);
                    true
                } else {
                    if self.listeners.contains_key(&req.cookie) {
                        self.probe("foreign-listener-cookie");
                    }
                    self.send(
                        c,
                        DestroyBusListenerReply {
                            serial: req.serial,
                            result: DestroyBusListenerResult::InvalidBusListener,
                        },
                        None,
                    )
                }
            }
            Message::AddBusListenerFilter(req) => {
                if let Some(l) = self.listeners.get_mut(&req.cookie) {
                    if l.conn == c {
                        l.filters.insert(req.filter);
                    }
                }
                true
            }
            Message::RemoveBusListenerFilter(req) => {
                if let Some(l) = self.listeners.get_mut(&req.cookie) {
                    if l.conn == c && l.filters.remove(&req.filter) {
                        self.probe("filter-removed");
                    }
                }
                true
            }
            Message::ClearBusListenerFilters(req) => {
                if let Some(l) = self.listeners.get_mut(&req.cookie) {
                    if l.conn == c {
                        l.filters.clear();
                    }
                }
                true
            }
            Message::StartBusListener(req) => self.start_listener(c, req),
            Message::StopBusListener(req) => {
                let result = match self.listeners.get_mut(&req.cookie) {
                    Some(l) if l.conn == c => {
                        if l.scope.take().is_some() {
                            StopBusListenerResult::Ok
                        } else {
                            StopBusListenerResult::NotStarted
                        }
                    }
                    _ => StopBusListenerResult::InvalidBusListener,
                };
                self.send(
                    c,
                    StopBusListenerReply {
                        serial: req.serial,
                        result,
                    },
                    None,
                )
            }

            // Introspection (broker built with its `introspection` feature).
            Message::RegisterIntrospection(req) => {
                if v < ProtocolVersion::V1_17 {
                    self.probe("gate-closed");
                    return false;
                }
                match req.value.deserialize::<std::collections::HashSet<aldrin_core::TypeId>>() {
                    Ok(ids) => {
                        for id in ids {
                            self.intro.entry(id).or_default().conns.insert(c);
                        }
                        self.probe("introspection-registered");
                        true
                    }
                    Err(_) => false,
                }
            }
            Message::QueryIntrospection(req) => {
                if v < ProtocolVersion::V1_17 {
                    self.probe("gate-closed");
                    return false;
                }
                let Some(entry) = self.intro.get_mut(&req.type_id) else {
                    return self.send(
                        c,
                        QueryIntrospectionReply {
                            serial: req.serial,
                            result: QueryIntrospectionResult::Unavailable,
                        },
                        None,
                    );
                };
                if let Some(cached) = entry.cached.clone() {
                    self.probe("introspection-answered-from-cache");
                    return self.send(
                        c,
                        QueryIntrospectionReply {
                            serial: req.serial,
                            result: QueryIntrospectionResult::Ok(cached),
                        },
                        None,
                    );
                }
                entry.pending.push((c, req.serial));
                if entry.queried.is_none() {
                    self.intro_query(req.type_id, snap);
                } else {
                    self.probe("introspection-query-joined");
                }
                true
            }
            Message::QueryIntrospectionReply(req) => {
                if v < ProtocolVersion::V1_17 {
                    self.probe("gate-closed");
                    return false;
                }
                let Some(&type_id) = self.intro_queries.get(&req.serial) else {
                    self.probe("introspection-reply-unknown-serial");
                    return false;
                };
                let entry = self.intro.get_mut(&type_id).expect("model intro entry");
                match entry.queried {
                    Some((q, _)) if q == c => {}
                    _ => {
                        self.probe("introspection-reply-from-wrong-connection");
                        return false;
                    }
                }
                entry.queried = None;
                self.intro_queries.remove(&req.serial);
                match req.result {
                    QueryIntrospectionResult::Ok(value) => {
                        let pending = std::mem::take(&mut entry.pending);
                        entry.cached = Some(value.clone());
                        self.probe("introspection-available");
                        for (p, serial) in pending {
                            self.send(
                                p,
                                QueryIntrospectionReply {
                                    serial,
                                    result: QueryIntrospectionResult::Ok(value.clone()),
                                },
                                None,
                            );
                        }
                    }
                    QueryIntrospectionResult::Unavailable => {
                        entry.conns.remove(&c);
                        // The broker forgets everything about `c` for this type, including a query
                        // `c` itself may have pending for it (left open by the properties; mirrored).
                        entry.pending.retain(|(p, _)| *p != c);
                        if entry.conns.is_empty() {
                            let pending = std::mem::take(&mut entry.pending);
                            self.intro.remove(&type_id);
                            self.probe("introspection-unavailable");
                            for (p, serial) in pending {
                                self.send(
                                    p,
                                    QueryIntrospectionReply {
                                        serial,
                                        result: QueryIntrospectionResult::Unavailable,
                                    },
                                    None,
                                );
                            }
                        } else {
                            self.probe("introspection-query-continued");
                            self.intro_query(type_id, snap);
                        }
                    }
                }
                true
            }

            // Kinds only the broker may send, and handshake messages.
            Message::Connect(_)
            | Message::ConnectReply(_)
            | Message::CreateObjectReply(_)
            | Message::DestroyObjectReply(_)
            | Message::CreateServiceReply(_)
            | Message::DestroyServiceReply(_)
            | Message::SubscribeEventReply(_)
            | Message::QueryServiceVersionReply(_)
            | Message::CreateChannelReply(_)
            | Message::CloseChannelEndReply(_)
            | Message::ChannelEndClosed(_)
            | Message::ClaimChannelEndReply(_)
            | Message::ChannelEndClaimed(_)
            | Message::ItemReceived(_)
            | Message::SyncReply(_)
            | Message::ServiceDestroyed(_)
            | Message::CreateBusListenerReply(_)
            | Message::DestroyBusListenerReply(_)
            | Message::StartBusListenerReply(_)
            | Message::StopBusListenerReply(_)
            | Message::EmitBusEvent(_)
            | Message::BusListenerCurrentFinished(_)
            | Message::Connect2(_)
            | Message::ConnectReply2(_)
            | Message::QueryServiceInfoReply(_)
            | Message::SubscribeServiceReply(_)
            | Message::SubscribeAllEventsReply(_)
            | Message::UnsubscribeAllEventsReply(_) => {
                self.probe("wrong-direction-message");
                false
            }

            // Never forwarded by a connection.
            Message::Shutdown(_) => false,
        }
    }

    // -- registry -------------------------------------------------------------------------------

    fn create_object(&mut self, c: ConnId, req: CreateObject, snap: &BrokerSnapshot) -> bool {
        if self.objs.contains_key(&req.uuid) {
            self.probe("create-object-duplicate");
            return self.send(
                c,
                CreateObjectReply {
                    serial: req.serial,
                    result: CreateObjectResult::DuplicateObject,
                },
                None,
            );
        }

        // Adopt the cookie the broker chose.
        let doomed = self.conns[&c].doomed;
        let cookie = match snap.objs.get(&req.uuid) {
            Some(o) => o.cookie,
            None if doomed => ObjectCookie::NIL, // never observable: the reply cannot be sent
            None => {
                self.violate(
                    "state.registry",
                    &[Prop::C03],
                    format!("object {:?} not created by an accepted CreateObject", req.uuid),
                );
                ObjectCookie::NIL
            }
        };

        if !self.send(
            c,
            CreateObjectReply {
                serial: req.serial,
                result: CreateObjectResult::Ok(cookie),
            },
            None,
        ) {
            return false;
        }

        if self.ever_obj_uuids.contains(&req.uuid) {
            self.probe("recreate-after-destroy");
        }
        self.fresh("object", Prop::C03, cookie.0);
        self.ever_obj_uuids.insert(req.uuid);
        self.obj_cookies.insert(cookie, req.uuid);
        self.objs.insert(
            req.uuid,
            MObj {
                conn: c,
                cookie,
                services: BTreeSet::new(),
            },
        );
        self.bus_event(BusEvent::ObjectCreated(ObjectId::new(req.uuid, cookie)));
        true
    }

    fn destroy_object(&mut self, c: ConnId, req: DestroyObject) -> bool {
        let result = match self.obj_cookies.get(&req.cookie) {
            None => {
                self.probe("destroy-object-invalid");
                DestroyObjectResult::InvalidObject
            }
            Some(uuid) if self.objs[uuid].conn != c => {
                self.probe("destroy-object-foreign");
                DestroyObjectResult::ForeignObject
            }
            Some(_) => DestroyObjectResult::Ok,
        };
        if !self.send(
            c,
            DestroyObjectReply {
                serial: req.serial,
                result,
            },
            None,
        ) {
            return false;
        }
        if result == DestroyObjectResult::Ok {
            self.remove_object(req.cookie);
        }
        true
    }

    fn create_service(
        &mut self,
        c: ConnId,
        serial: u32,
        object_cookie: ObjectCookie,
        uuid: ServiceUuid,
        info: ServiceInfo,
        snap: &BrokerSnapshot,
    ) -> bool {
        let reply = |result| CreateServiceReply { serial, result };

        let Some(&obj_uuid) = self.obj_cookies.get(&object_cookie) else {
            self.probe("create-service-invalid-object");
            return self.send(c, reply(CreateServiceResult::InvalidObject), None);
        };
        if self.svc_keys.contains_key(&(obj_uuid, uuid)) {
            self.probe("create-service-duplicate");
            return self.send(c, reply(CreateServiceResult::DuplicateService), None);
        }
        if self.objs[&obj_uuid].conn != c {
            self.probe("create-service-foreign");
            return self.send(c, reply(CreateServiceResult::ForeignObject), None);
        }

        let doomed = self.conns[&c].doomed;
        let cookie = match snap.svcs.get(&(obj_uuid, uuid)) {
            Some(s) => s.cookie,
            None if doomed => ServiceCookie::NIL,
            None => {
                self.violate(
                    "state.registry",
                    &[Prop::C03],
                    format!("service {uuid:?} not created by an accepted CreateService"),
                );
                ServiceCookie::NIL
            }
        };

        if !self.send(c, reply(CreateServiceResult::Ok(cookie)), None) {
            return false;
        }

        self.fresh("service", Prop::C03, cookie.0);
        self.svc_keys.insert((obj_uuid, uuid), cookie);
        self.svcs.insert(
            cookie,
            MSvc {
                obj_uuid,
                obj_cookie: object_cookie,
                uuid,
                info,
                calls: BTreeSet::new(),
                events: BTreeMap::new(),
                all_events: BTreeSet::new(),
                subs: BTreeSet::new(),
            },
        );
        self.objs.get_mut(&obj_uuid).unwrap().services.insert(cookie);
        let oid = ObjectId::new(obj_uuid, object_cookie);
        self.bus_event(BusEvent::ServiceCreated(ServiceId::new(oid, uuid, cookie)));
        true
    }

    fn create_service2(&mut self, c: ConnId, req: CreateService2, snap: &BrokerSnapshot) -> bool {
        // Refusals come before the payload is looked at.
        let serial = req.serial;
        let reply = |result| CreateServiceReply { serial, result };
        let Some(&obj_uuid) = self.obj_cookies.get(&req.object_cookie) else {
            return self.send(c, reply(CreateServiceResult::InvalidObject), None);
        };
        if self.svc_keys.contains_key(&(obj_uuid, req.uuid)) {
            return self.send(c, reply(CreateServiceResult::DuplicateService), None);
        }
        if self.objs[&obj_uuid].conn != c {
            return self.send(c, reply(CreateServiceResult::ForeignObject), None);
        }
        let Ok(mut info) = req.value.deserialize::<ServiceInfo>() else {
            self.probe("create-service2-bad-info");
            return false;
        };
        if self.conns[&c].version < ProtocolVersion::V1_18 {
            info = info.set_subscribe_all(false);
        }
        self.create_service(c, req.serial, req.object_cookie, req.uuid, info, snap)
    }

    fn destroy_service(&mut self, c: ConnId, req: DestroyService) -> bool {
        let result = match self.svcs.get(&req.cookie) {
            None => {
                self.probe("destroy-service-invalid");
                DestroyServiceResult::InvalidService
            }
            Some(svc) if self.objs[&svc.obj_uuid].conn != c => {
                self.probe("destroy-service-foreign");
                DestroyServiceResult::ForeignObject
            }
            Some(_) => DestroyServiceResult::Ok,
        };
        if !self.send(
            c,
            DestroyServiceReply {
                serial: req.serial,
                result,
            },
            None,
        ) {
            return false;
        }
        if result == DestroyServiceResult::Ok {
            self.remove_service(req.cookie);
        }
        true
    }

    // -- calls ----------------------------------------------------------------------------------

    #[allow(clippy::too_many_arguments)]
    fn call(
        &mut self,
        c: ConnId,
        serial: u32,
        svc_cookie: ServiceCookie,
        function: u32,
        version: Option<u32>,
        value: SerializedValue,
        snap: &BrokerSnapshot,
    ) -> bool {
        let Some(svc) = self.svcs.get(&svc_cookie) else {
            self.probe("call-invalid-service");
            return self.send(
                c,
                CallFunctionReply {
                    serial,
                    result: CallFunctionResult::InvalidService,
                },
                None,
            );
        };

        if self.conns[&c].calls.contains_key(&serial) {
            self.probe("call-duplicate-serial");
            return false;
        }

        let obj_uuid = svc.obj_uuid;
        let svc_uuid = svc.uuid;
        let callee = self.owner_of_obj(obj_uuid);
        if callee == c {
            self.probe("self-call");
        }
        if !self.calls.is_empty() {
            self.probe("overlapping-calls");
        }
        let callee_doomed = self.conns[&callee].doomed;

        // Adopt the callee serial: the pending call of (c, serial) in the snapshot.
        let adopted = snap
            .function_calls
            .iter()
            .find(|(s, fc)| {
                fc.caller_conn == c && fc.caller_serial == serial && !self.calls.contains_key(s)
            })
            .map(|(&s, _)| s);

        let callee_serial = match adopted {
            Some(s) => s,
            None if callee_doomed => {
                // The forward fails; the callee is removed in this step and the call with it.
                let mut s = u32::MAX;
                while self.calls.contains_key(&s) {
                    s -= 1;
                }
                s
            }
            None => {
                self.violate(
                    "state.calls",
                    &[Prop::C02],
                    format!("accepted call (conn {c}, serial {serial}) is not pending in the broker"),
                );
                let mut s = u32::MAX;
                while self.calls.contains_key(&s) {
                    s -= 1;
                }
                s
            }
        };

        // Freshness of the adopted value: a callee serial that was issued before (in a run of far
        // fewer than 2^32 calls) would let a late duplicate reply to the old call pass as the
        // reply to this one - "duplicate replies are never delivered" cannot hold then.
        if adopted.is_some() && !self.seen_callee_serials.insert(callee_serial) {
            self.violate(
                "state.calls.callee-serial-reused",
                &[Prop::C02],
                format!("call (conn {c}, serial {serial}) was given callee serial {callee_serial}, which an earlier call of this run already had"),
            );
        }

        self.calls.insert(
            callee_serial,
            MCall {
                caller: c,
                caller_serial: serial,
                svc: svc_cookie,
                obj_uuid,
                svc_uuid,
                aborted: false,
            },
        );
        self.conns.get_mut(&c).unwrap().calls.insert(serial, callee_serial);
        self.svcs.get_mut(&svc_cookie).unwrap().calls.insert(callee_serial);

        let from = Some(self.conns[&c].version);
        if self.conns[&callee].version >= ProtocolVersion::V1_19 {
            self.send(
                callee,
                CallFunction2 {
                    serial: callee_serial,
                    service_cookie: svc_cookie,
                    function,
                    version,
                    value,
                },
                from,
            );
        } else {
            if version.is_some() {
                self.probe("call2-downgraded-for-old-callee");
            }
            self.send(
                callee,
                CallFunction {
                    serial: callee_serial,
                    service_cookie: svc_cookie,
                    function,
                    value,
                },
                from,
            );
        }
        true
    }

    fn call_reply(&mut self, c: ConnId, req: CallFunctionReply) {
        let Some(call) = self.calls.get(&req.serial) else {
            self.probe("reply-unknown-serial");
            return;
        };
        if self.owner_of_obj(call.obj_uuid) != c {
            self.probe("non-owner-reply");
            return;
        }
        let call = self.calls.remove(&req.serial).unwrap();
        self.svcs.get_mut(&call.svc).unwrap().calls.remove(&req.serial);
        if call.aborted {
            self.probe("reply-after-abort");
            return;
        }
        let from = Some(self.conns[&c].version);
        if let Some(conn) = self.conns.get_mut(&call.caller) {
            conn.calls.remove(&call.caller_serial);
            self.probe("reply-forwarded");
            self.send(
                call.caller,
                CallFunctionReply {
                    serial: call.caller_serial,
                    result: req.result,
                },
                from,
            );
        }
    }

    // -- events ---------------------------------------------------------------------------------

    fn subscribe_event(&mut self, c: ConnId, req: SubscribeEvent) -> bool {
        let Some(serial) = req.serial else {
            self.probe("subscribe-without-serial");
            return false;
        };
        if !self.svcs.contains_key(&req.service_cookie) {
            return self.send(
                c,
                SubscribeEventReply {
                    serial,
                    result: SubscribeEventResult::InvalidService,
                },
                None,
            );
        }
        if !self.send(
            c,
            SubscribeEventReply {
                serial,
                result: SubscribeEventResult::Ok,
            },
            None,
        ) {
            return false;
        }
        let svc = self.svcs.get_mut(&req.service_cookie).unwrap();
        let owner_uuid = svc.obj_uuid;
        let set = svc.events.entry(req.event).or_default();
        let first = set.is_empty();
        if !set.insert(c) {
            self.probe("subscribe-twice");
        }
        if first {
            self.probe("first-subscribe-forwarded");
            let owner = self.owner_of_obj(owner_uuid);
            self.send_soft(
                owner,
                SubscribeEvent {
                    serial: None,
                    service_cookie: req.service_cookie,
                    event: req.event,
                },
            );
        }
        true
    }

    fn emit_event(&mut self, c: ConnId, req: EmitEvent) {
        let Some(svc) = self.svcs.get(&req.service_cookie) else {
            return;
        };
        if self.owner_of_obj(svc.obj_uuid) != c {
            self.probe("non-owner-emit");
            return;
        }
        let mut targets: BTreeSet<ConnId> = svc.all_events.clone();
        if let Some(s) = svc.events.get(&req.event) {
            targets.extend(s.iter().copied());
        }
        if targets.len() >= 2 {
            self.probe("emit-to-2+");
        }
        let from = Some(self.conns[&c].version);
        for t in targets {
            self.send(t, req.clone(), from);
        }
    }

    fn subscribe_all(&mut self, c: ConnId, req: SubscribeAllEvents) -> bool {
        let Some(serial) = req.serial else {
            return false;
        };
        let reply = |result| SubscribeAllEventsReply { serial, result };
        let Some(svc) = self.svcs.get(&req.service_cookie) else {
            return self.send(c, reply(SubscribeAllEventsResult::InvalidService), None);
        };
        let owner = self.owner_of_obj(svc.obj_uuid);
        if !svc.info.subscribe_all().unwrap_or(false)
            || self.conns[&owner].version < ProtocolVersion::V1_18
        {
            self.probe("subscribe-all-not-supported");
            return self.send(c, reply(SubscribeAllEventsResult::NotSupported), None);
        }
        if !self.send(c, reply(SubscribeAllEventsResult::Ok), None) {
            return false;
        }
        let svc = self.svcs.get_mut(&req.service_cookie).unwrap();
        let first = svc.all_events.is_empty();
        svc.all_events.insert(c);
        if first {
            self.send_soft(
                owner,
                SubscribeAllEvents {
                    serial: None,
                    service_cookie: req.service_cookie,
                },
            );
        }
        true
    }

    fn unsubscribe_all(&mut self, c: ConnId, req: UnsubscribeAllEvents) -> bool {
        let reply = |serial, result| UnsubscribeAllEventsReply { serial, result };
        let Some(svc) = self.svcs.get(&req.service_cookie) else {
            return match req.serial {
                Some(s) => self.send(c, reply(s, UnsubscribeAllEventsResult::InvalidService), None),
                None => true,
            };
        };
        let owner = self.owner_of_obj(svc.obj_uuid);
        if self.conns[&owner].version < ProtocolVersion::V1_18 {
            return match req.serial {
                Some(s) => self.send(c, reply(s, UnsubscribeAllEventsResult::NotSupported), None),
                None => true,
            };
        }
        if let Some(s) = req.serial {
            if !self.send(c, reply(s, UnsubscribeAllEventsResult::Ok), None) {
                return false;
            }
        }
        if self.unsubscribe_all_of(c, req.service_cookie) {
            self.send_soft(
                owner,
                UnsubscribeAllEvents {
                    serial: None,
                    service_cookie: req.service_cookie,
                },
            );
        }
        true
    }

    // -- channels -------------------------------------------------------------------------------

    fn create_channel(&mut self, c: ConnId, req: CreateChannel, snap: &BrokerSnapshot) -> bool {
        let doomed = self.conns[&c].doomed;
        let want_sender = matches!(req.end, ChannelEndWithCapacity::Sender);
        let adopted = snap
            .channels
            .iter()
            .find(|(k, ch)| {
                !self.channels.contains_key(k)
                    && !self.seen_cookies.contains(&k.0)
                    && if want_sender {
                        matches!(ch.sender, ChannelEndSnapshot::Claimed { owner, .. } if owner == c)
                    } else {
                        matches!(ch.receiver, ChannelEndSnapshot::Claimed { owner, .. } if owner == c)
                    }
            })
            .map(|(&k, _)| k);

        let cookie = match adopted {
            Some(k) => k,
            None if doomed => {
                // Channel created and torn down within the step; S2 (gauge skew) is checked by the
                // gauge comparison.
                self.probe("create-channel-from-dropped-task");
                self.send(
                    c,
                    CreateChannelReply {
                        serial: req.serial,
                        cookie: ChannelCookie::NIL,
                    },
                    None,
                );
                self.created_channel_by_doomed = true;
                return false;
            }
            None => {
                self.violate(
                    "state.channels",
                    &[Prop::C05],
                    format!("channel requested by conn {c} does not exist after CreateChannel"),
                );
                ChannelCookie::NIL
            }
        };

        self.fresh("channel", Prop::C05, cookie.0);
        let chan = match req.end {
            ChannelEndWithCapacity::Sender => MChan {
                sender: MEnd::Claimed {
                    owner: c,
                    capacity: 0,
                },
                receiver: MEnd::Unclaimed,
            },
            ChannelEndWithCapacity::Receiver(capacity) => MChan {
                sender: MEnd::Unclaimed,
                receiver: MEnd::Claimed { owner: c, capacity },
            },
        };
        self.channels.insert(cookie, chan);
        self.send(
            c,
            CreateChannelReply {
                serial: req.serial,
                cookie,
            },
            None,
        )
    }

    fn close_channel_end(&mut self, c: ConnId, req: CloseChannelEnd) -> bool {
        let reply = |result| CloseChannelEndReply {
            serial: req.serial,
            result,
        };
        let Some(chan) = self.channels.get(&req.cookie) else {
            return self.send(c, reply(CloseChannelEndResult::InvalidChannel), None);
        };
        let state = match req.end {
            ChannelEnd::Sender => chan.sender,
            ChannelEnd::Receiver => chan.receiver,
        };
        let result = match state {
            MEnd::Unclaimed => {
                self.probe("close-unclaimed-end");
                CloseChannelEndResult::Ok
            }
            MEnd::Claimed { owner, .. } if owner == c => CloseChannelEndResult::Ok,
            MEnd::Claimed { .. } => {
                self.probe("close-foreign-end");
                CloseChannelEndResult::ForeignChannel
            }
            MEnd::Closed => CloseChannelEndResult::InvalidChannel,
        };
        if !self.send(c, reply(result), None) {
            return false;
        }
        if result == CloseChannelEndResult::Ok {
            self.close_end(req.cookie, req.end);
        }
        true
    }

    fn claim_channel_end(&mut self, c: ConnId, req: ClaimChannelEnd) -> bool {
        let reply = |result| ClaimChannelEndReply {
            serial: req.serial,
            result,
        };
        let Some(chan) = self.channels.get_mut(&req.cookie) else {
            self.probe("claim-invalid-channel");
            return self.send(c, reply(ClaimChannelEndResult::InvalidChannel), None);
        };
        let state = match req.end {
            ChannelEndWithCapacity::Sender => chan.sender,
            ChannelEndWithCapacity::Receiver(_) => chan.receiver,
        };
        match state {
            MEnd::Unclaimed => {}
            MEnd::Claimed { .. } => {
                self.probe("claim-already-claimed");
                return self.send(c, reply(ClaimChannelEndResult::AlreadyClaimed), None);
            }
            MEnd::Closed => {
                self.probe("claim-closed-end");
                return self.send(c, reply(ClaimChannelEndResult::InvalidChannel), None);
            }
        }

        let (other, result) = match req.end {
            ChannelEndWithCapacity::Sender => {
                let MEnd::Claimed { owner, capacity } = chan.receiver else {
                    // An unclaimed end only exists next to a claimed one.
                    self.violate(
                        "model.channel-shape",
                        &[Prop::C05],
                        "unclaimed sender next to a non-claimed receiver".into(),
                    );
                    return true;
                };
                chan.sender = MEnd::Claimed { owner: c, capacity };
                (owner, ClaimChannelEndResult::SenderClaimed(capacity))
            }
            ChannelEndWithCapacity::Receiver(capacity) => {
                let MEnd::Claimed { owner, .. } = chan.sender else {
                    self.violate(
                        "model.channel-shape",
                        &[Prop::C05],
                        "unclaimed receiver next to a non-claimed sender".into(),
                    );
                    return true;
                };
                chan.receiver = MEnd::Claimed { owner: c, capacity };
                chan.sender = MEnd::Claimed { owner, capacity };
                (owner, ClaimChannelEndResult::ReceiverClaimed)
            }
        };
        if other == c {
            self.probe("both-ends-same-connection");
        }

        let ok = self.send(c, reply(result), None);
        self.send(
            other,
            ChannelEndClaimed {
                cookie: req.cookie,
                end: req.end,
            },
            None,
        );
        ok
    }

    fn send_item(&mut self, c: ConnId, req: SendItem, snap: &BrokerSnapshot) -> bool {
        let Some(chan) = self.channels.get_mut(&req.cookie) else {
            return true;
        };
        let MEnd::Claimed {
            owner: sender,
            capacity: announced,
        } = chan.sender
        else {
            return true;
        };
        if sender != c {
            self.probe("send-item-foreign-sender");
            return true;
        }
        match chan.receiver {
            MEnd::Unclaimed => {
                self.probe("send-to-unclaimed-receiver");
                self.close_end(req.cookie, ChannelEnd::Receiver);
                self.close_end(req.cookie, ChannelEnd::Sender);
                true
            }
            MEnd::Closed => {
                self.probe("send-to-closed-receiver");
                true
            }
            MEnd::Claimed {
                owner: receiver,
                capacity: granted,
            } => {
                if announced == 0 {
                    self.probe("overrun-cut-off");
                    self.close_end(req.cookie, ChannelEnd::Sender);
                    return true;
                }
                if granted == 0 {
                    self.violate(
                        "credit.announced-exceeds-granted",
                        &[Prop::C05],
                        format!("channel {:?}: announced {announced} > granted 0", req.cookie),
                    );
                    return true;
                }
                let mut announced = announced - 1;
                let granted = granted - 1;
                if announced == 0 {
                    self.probe("credit-hit-zero");
                }

                let from = Some(self.conns[&c].version);
                self.send(
                    receiver,
                    ItemReceived {
                        cookie: req.cookie,
                        value: req.value,
                    },
                    from,
                );

                // Replenishment of the sender's credit is the broker's choice; adopt it.
                let mut ok = true;
                if self.conns[&c].doomed {
                    // Whether the broker tried to announce credit to a sender whose task is gone
                    // is its choice; it shows in whether the sender is still registered.
                    if !snap.conns.contains_key(&c) {
                        ok = self.send(
                            c,
                            AddChannelCapacity {
                                cookie: req.cookie,
                                capacity: 1,
                            },
                            None,
                        );
                    }
                    if let Some(chan) = self.channels.get_mut(&req.cookie) {
                        if let MEnd::Claimed { capacity, .. } = &mut chan.sender {
                            *capacity = announced;
                        }
                        if let MEnd::Claimed { capacity, .. } = &mut chan.receiver {
                            *capacity = granted;
                        }
                    }
                    return ok;
                }
                if let Some(new_announced) = snap_sender_capacity(snap, req.cookie, c) {
                    if new_announced > announced {
                        self.probe("replenish-on-send");
                        ok = self.send(
                            c,
                            AddChannelCapacity {
                                cookie: req.cookie,
                                capacity: new_announced - announced,
                            },
                            None,
                        );
                        announced = new_announced;
                    }
                }
                self.check_credit(req.cookie, announced, granted);
                if let Some(chan) = self.channels.get_mut(&req.cookie) {
                    if let MEnd::Claimed { capacity, .. } = &mut chan.sender {
                        *capacity = announced;
                    }
                    if let MEnd::Claimed { capacity, .. } = &mut chan.receiver {
                        *capacity = granted;
                    }
                }
                ok
            }
        }
    }

    fn check_credit(&mut self, cookie: ChannelCookie, announced: u32, granted: u32) {
        if announced > granted {
            self.violate(
                "credit.announced-exceeds-granted",
                &[Prop::C05],
                format!("channel {cookie:?}: announced {announced} > granted {granted}"),
            );
        }
        if announced == 0 && granted > 0 {
            self.violate(
                "credit.stall",
                &[Prop::C05],
                format!("channel {cookie:?}: announced credit is 0 while {granted} is granted"),
            );
        }
    }

    fn add_capacity(&mut self, c: ConnId, req: AddChannelCapacity, snap: &BrokerSnapshot) {
        if req.capacity == 0 {
            return;
        }
        let Some(chan) = self.channels.get_mut(&req.cookie) else {
            return;
        };
        let MEnd::Claimed {
            owner,
            capacity: granted,
        } = chan.receiver
        else {
            return;
        };
        if owner != c {
            self.probe("add-capacity-foreign");
            return;
        }
        let Some(granted) = granted.checked_add(req.capacity) else {
            self.probe("capacity-overflow");
            self.close_end(req.cookie, ChannelEnd::Receiver);
            return;
        };
        chan.receiver = MEnd::Claimed {
            owner,
            capacity: granted,
        };
        let MEnd::Claimed {
            owner: sender,
            capacity: announced,
        } = chan.sender
        else {
            return;
        };
        let mut new_announced = announced;
        if self.conns.get(&sender).map(|c| c.doomed).unwrap_or(false) {
            if !snap.conns.contains_key(&sender) {
                self.send(
                    sender,
                    AddChannelCapacity {
                        cookie: req.cookie,
                        capacity: 1,
                    },
                    None,
                );
            }
            return;
        }
        if let Some(a) = snap_sender_capacity(snap, req.cookie, sender) {
            if a > announced {
                self.probe("replenish-on-grant");
                self.send(
                    sender,
                    AddChannelCapacity {
                        cookie: req.cookie,
                        capacity: a - announced,
                    },
                    None,
                );
                new_announced = a;
            }
        }
        self.check_credit(req.cookie, new_announced, granted);
        if let Some(chan) = self.channels.get_mut(&req.cookie) {
            if let MEnd::Claimed { capacity, .. } = &mut chan.sender {
                *capacity = new_announced;
            }
        }
    }

    // -- bus listeners --------------------------------------------------------------------------

    fn create_listener(&mut self, c: ConnId, req: CreateBusListener, snap: &BrokerSnapshot) -> bool {
        let doomed = self.conns[&c].doomed;
        let adopted = snap
            .bus_listeners
            .iter()
            .find(|(k, l)| {
                l.conn == c && !self.listeners.contains_key(k) && !self.seen_cookies.contains(&k.0)
            })
            .map(|(&k, _)| k);
        let cookie = match adopted {
            Some(k) => k,
            None if doomed => BusListenerCookie::NIL,
            None => {
                self.violate(
                    "state.listeners",
                    &[Prop::C10],
                    format!("bus listener requested by conn {c} does not exist"),
                );
                BusListenerCookie::NIL
            }
        };
        if !self.send(
            c,
            CreateBusListenerReply {
                serial: req.serial,
                cookie,
            },
            None,
        ) {
            return false;
        }
        self.fresh("bus listener", Prop::C10, cookie.0);
        self.listeners.insert(
            cookie,
            MListener {
                conn: c,
                filters: BTreeSet::new(),
                scope: None,
            },
        );
        true
    }

    fn start_listener(&mut self, c: ConnId, req: StartBusListener) -> bool {
        let reply = |result| StartBusListenerReply {
            serial: req.serial,
            result,
        };
        let own = matches!(self.listeners.get(&req.cookie), Some(l) if l.conn == c);
        if !own {
            return self.send(c, reply(StartBusListenerResult::InvalidBusListener), None);
        }
        let l = self.listeners.get_mut(&req.cookie).unwrap();
        if l.scope.is_some() {
            self.probe("start-while-started");
            return self.send(c, reply(StartBusListenerResult::AlreadyStarted), None);
        }
        l.scope = Some(req.scope);
        let filters = l.filters.clone();
        if !self.send(c, reply(StartBusListenerResult::Ok), None) {
            return false;
        }
        if req.scope != BusListenerScope::New {
            let mut evs = Vec::new();
            for (uuid, obj) in &self.objs {
                let oid = ObjectId::new(*uuid, obj.cookie);
                if filters.iter().any(|f| filter_matches_object(f, *uuid)) {
                    evs.push(BusEvent::ObjectCreated(oid));
                }
            }
            for (cookie, svc) in &self.svcs {
                let sid = ServiceId::new(
                    ObjectId::new(svc.obj_uuid, svc.obj_cookie),
                    svc.uuid,
                    *cookie,
                );
                if filters.iter().any(|f| filter_matches_service(f, svc.obj_uuid, svc.uuid)) {
                    evs.push(BusEvent::ServiceCreated(sid));
                }
            }
            if !evs.is_empty() {
                self.probe("current-enumeration-nonempty");
            }
            for event in evs {
                if !self.send(
                    c,
                    EmitBusEvent {
                        cookie: Some(req.cookie),
                        event,
                    },
                    None,
                ) {
                    return false;
                }
            }
            return self.send(c, BusListenerCurrentFinished { cookie: req.cookie }, None);
        }
        true
    }
}

fn snap_sender_capacity(snap: &BrokerSnapshot, cookie: ChannelCookie, sender: ConnId) -> Option<u32> {
    match snap.channels.get(&cookie)?.sender {
        ChannelEndSnapshot::Claimed { owner, capacity } if owner == sender => Some(capacity),
        _ => None,
    }
}
