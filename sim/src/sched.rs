//! Scheduling decisions: uniform random walk, PCT-style priorities, or replay of a choice list.

use crate::rng::Rng;
use std::collections::BTreeMap;

#[derive(Debug, Clone, Copy, PartialEq, Eq)]
pub enum SchedKind {
    Random,
    Pct,
    /// Random, but with probability 0.85 the entity that ran last runs again if it is enabled:
    /// long bursts of one task or actor (queues fill up, others starve for a while).
    Sticky,
}

pub struct Chooser {
    mode: Mode,
    /// Every decision taken (index among the enabled actions).
    pub choices: Vec<u32>,
    pub step: usize,
}

enum Mode {
    Random(Rng),
    Pct {
        rng: Rng,
        prio: BTreeMap<u64, u64>,
        change_points: Vec<usize>,
        low: u64,
    },
    Sticky {
        rng: Rng,
        last: Option<u64>,
    },
    Replay(Vec<u32>),
}

impl Chooser {
    pub fn random(rng: Rng) -> Self {
        Self {
            mode: Mode::Random(rng),
            choices: Vec::new(),
            step: 0,
        }
    }

    /// PCT with `depth` priority change points spread over an estimated run length.
    pub fn pct(mut rng: Rng, depth: usize, est_len: usize) -> Self {
        let mut change_points: Vec<usize> = (0..depth).map(|_| rng.below(est_len.max(1))).collect();
        change_points.sort_unstable();
        Self {
            mode: Mode::Pct {
                rng,
                prio: BTreeMap::new(),
                change_points,
                low: 0,
            },
            choices: Vec::new(),
            step: 0,
        }
    }

    pub fn sticky(rng: Rng) -> Self {
        Self {
            mode: Mode::Sticky { rng, last: None },
            choices: Vec::new(),
            step: 0,
        }
    }

    pub fn replay(choices: Vec<u32>) -> Self {
        Self {
            mode: Mode::Replay(choices),
            choices: Vec::new(),
            step: 0,
        }
    }

    /// Picks one of `keys` (stable identifiers of the enabled actions, canonical order).
    pub fn choose(&mut self, keys: &[u64]) -> usize {
        debug_assert!(!keys.is_empty());
        let idx = match &mut self.mode {
            Mode::Random(rng) => rng.below(keys.len()),

            Mode::Pct {
                rng,
                prio,
                change_points,
                low,
            } => {
                let mut best = 0;
                let mut best_p = 0;
                for (i, k) in keys.iter().enumerate() {
                    // Entities (tasks, actors) rather than individual actions carry priorities.
                    let ent = *k % 10_000;
                    let p = *prio
                        .entry(ent)
                        .or_insert_with(|| 1_000_000 + (rng.next_u64() >> 24));
                    if i == 0 || p > best_p {
                        best = i;
                        best_p = p;
                    }
                }
                if change_points.first().is_some_and(|&cp| cp <= self.step) {
                    change_points.remove(0);
                    *low += 1;
                    let ent = keys[best] % 10_000;
                    // Demote the entity that would have run: lower than every initial priority.
                    prio.insert(ent, 1000 - (*low).min(999));
                }
                best
            }

            Mode::Sticky { rng, last } => {
                let again = last.and_then(|l| keys.iter().position(|k| *k % 10_000 == l));
                let idx = match again {
                    Some(i) if rng.chance(85, 100) => i,
                    _ => rng.below(keys.len()),
                };
                *last = Some(keys[idx] % 10_000);
                idx
            }

            Mode::Replay(list) => {
                let c = list.get(self.step).copied().unwrap_or(0) as usize;
                c % keys.len()
            }
        };
        if std::env::var("VERIF_DEBUG_SCHED").is_ok() {
            eprintln!("sched {} keys {:?} -> {}", self.step, keys, idx);
        }
        self.choices.push(idx as u32);
        self.step += 1;
        idx
    }
}
