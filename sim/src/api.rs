//! Level B harness: real `Broker`, `Connection`, `ClientBuilder`/`Client` and every client-side type,
//! driven by random application programs under the deterministic executor; faults on the client's
//! transport at a chosen operation index and the clean termination causes (C15).

use crate::api_app::*;
use crate::api_transport::{FaultCtl, FaultMode, Faulty, Inner, SharedCtl};
use crate::entropy;
use crate::exec::{Exec, PanicInfo, PollOutcome, TaskId, TaskState};
use crate::model::{snapshot_consistency, Model, Prop, Violation};
use crate::rng::{Fnv, Rng};
use crate::runner::{RunOutput, RunSpec};
use crate::sched::Chooser;
use crate::transport;
use crate::wire::RunStats;
use aldrin::ClientBuilder;
use aldrin_broker::verif::{TapEvent, TapInput};
use aldrin_broker::{Broker, BrokerHandle, ConnectionHandle};
use aldrin_core::{ObjectId, ObjectUuid, ServiceUuid};
use serde_json::{json, Value};
use std::cell::{Cell, RefCell};
use std::collections::{BTreeMap, BTreeSet};
use std::rc::Rc;

#[derive(Default)]
struct ClientShared {
    run_result: Option<Result<(), String>>,
    connect_err: Option<String>,
    conn_result: Option<Result<(), String>>,
    conn_handle: Option<ConnectionHandle>,
    raw: Option<usize>,
}

struct ClientRt {
    ctx: Ctx,
    shared: Rc<RefCell<ClientShared>>,
    ctl: SharedCtl,
    conn_task: TaskId,
    client_task: TaskId,
    apps_spawned: bool,
    minor: u32,
    /// Transport operation count at which the clean termination cause is applied.
    cause_done: bool,
}

struct World {
    exec: Exec,
    handle: BrokerHandle,
    broker_task: TaskId,
    clients: Vec<ClientRt>,
    tasks: Vec<(TaskId, Rc<TaskInfo>)>,
    spawner: Spawner,
    log: SharedLog,
    model: Model,
    tap: Rc<RefCell<Vec<TapEvent>>>,
    pending_input: Option<TapInput>,
    bstep: Rc<Cell<usize>>,
    stats: RunStats,
    sig: Fnv,
    harness_error: Option<String>,
    violations: Vec<Violation>,
    created_at: BTreeMap<ObjectId, usize>,
    destroyed_at: BTreeMap<ObjectId, usize>,
    aux: Vec<TaskId>,
    prop: Prop,
    registered: BTreeSet<usize>,
    /// Call id (first element of the arguments) -> (caller connection, caller serial).
    call_ids: BTreeMap<u64, (usize, u32)>,
    bb: SharedBoard,
}

fn actor_scripts(plan: &Value) -> Vec<(usize, Vec<AOp>)> {
    plan["actors"]
        .as_array()
        .map(|a| {
            a.iter()
                .map(|x| {
                    (
                        x["client"].as_u64().unwrap_or(0) as usize,
                        x["script"]
                            .as_array()
                            .map(|s| s.iter().filter_map(AOp::from_json).collect())
                            .unwrap_or_default(),
                    )
                })
                .collect()
        })
        .unwrap_or_default()
}

impl World {
    fn violate(&mut self, v: Violation) {
        self.log.borrow_mut().tr(|| format!("VIOLATION {} {:?}: {}", v.rule, v.props, v.detail));
        self.violations.push(v);
    }

    fn on_panic(&mut self, what: &str, info: PanicInfo) {
        if info.in_harness() {
            self.harness_error = Some(format!("panic in simulator code while {what}: {} at {}", info.message, info.location));
        } else {
            self.violate(Violation::new(
                "panic",
                &[Prop::C06, Prop::C15, Prop::C19, Prop::C05, Prop::C11, Prop::C04, Prop::C10, Prop::C12, Prop::C02, Prop::C03],
                format!("{what} panicked: {} at {}", info.message, info.location),
            ));
        }
    }

    fn drain_spawner(&mut self) {
        let new: Vec<_> = std::mem::take(&mut *self.spawner.borrow_mut());
        for (name, info, fut) in new {
            let id = self.exec.spawn(name, fut);
            self.tasks.push((id, info));
        }
    }

    fn process_tap(&mut self) {
        let events: Vec<TapEvent> = std::mem::take(&mut *self.tap.borrow_mut());
        for ev in events {
            // Nothing after the first violation: model and broker may have diverged.
            if !self.violations.is_empty() {
                break;
            }
            match ev {
                TapEvent::Input(i) => self.pending_input = Some(i),
                TapEvent::Step(snap) => {
                    let Some(input) = self.pending_input.take() else {
                        self.harness_error = Some("tap: step without input".into());
                        return;
                    };
                    self.stats.broker_steps += 1;
                    self.bstep.set(self.stats.broker_steps);
                    if let TapInput::NewConnection { conn, .. } = &input {
                        self.registered.insert(*conn);
                    }
                    if let TapInput::Message { conn, msg } = &input {
                        let (serial, value) = match msg {
                            aldrin_core::message::Message::CallFunction(m) => (Some(m.serial), Some(&m.value)),
                            aldrin_core::message::Message::CallFunction2(m) => (Some(m.serial), Some(&m.value)),
                            _ => (None, None),
                        };
                        if let (Some(serial), Some(value)) = (serial, value) {
                            if let Ok(v) = value.deserialize::<Vec<u64>>() {
                                if v.len() == 2 {
                                    self.call_ids.insert(v[0], (*conn, serial));
                                }
                            }
                        }
                    }
                    let before: BTreeSet<ObjectId> = self.model.objs.iter().map(|(u, o)| ObjectId::new(*u, o.cookie)).collect();
                    let out = self.model.step(&input, &snap);
                    let after: BTreeSet<ObjectId> = self.model.objs.iter().map(|(u, o)| ObjectId::new(*u, o.cookie)).collect();
                    for o in after.difference(&before) {
                        self.created_at.insert(*o, self.stats.broker_steps);
                    }
                    for o in before.difference(&after) {
                        self.destroyed_at.insert(*o, self.stats.broker_steps);
                    }
                    self.sig.str(&out.class);
                    self.log.borrow_mut().thash.str(&out.class);
                    for p in &out.probes {
                        *self.stats.probes.entry(p).or_insert(0) += 1;
                    }
                    let bs = self.stats.broker_steps;
                    self.log.borrow_mut().tr(|| format!("broker step #{bs}: {} removed {:?}", out.class, out.removed));
                    let mut vs = out.violations;
                    self.model.compare(&snap, !out.removed.is_empty(), &mut vs);
                    snapshot_consistency(&snap, &mut vs);
                    for v in vs {
                        self.violate(v);
                    }
                }
                TapEvent::Exit(_) => {}
            }
        }
    }

    /// Lost wake-ups and deadlocks: at quiescence no task may be blocked in an operation that only
    /// needs the broker (or a peer that has already acted) to complete.
    fn check_blocked(&mut self, after_client_stop: bool) {
        let mut vs = Vec::new();
        for (id, info) in &self.tasks {
            if info.done.get() || self.exec.state(*id) != TaskState::Running {
                continue;
            }
            let Some((what, must)) = info.blocked.get() else {
                continue;
            };
            let dyn_must = info.dyn_must.borrow().as_ref().map(|f| f.get()).unwrap_or(false)
                && !info.dyn_unless.borrow().as_ref().map(|f| f.get()).unwrap_or(false);
            let client_stopped = self.clients.get(info.client).is_some_and(|c| c.shared.borrow().run_result.is_some());
            if client_stopped {
                vs.push(Violation::new(
                    "liveness.pending-after-client-stopped",
                    &[Prop::C15, Prop::C06],
                    format!("task '{}' is still blocked in {what} although Client::run of client{} has returned", info.name, info.client),
                ));
            } else if (must || dyn_must) && !after_client_stop {
                // The awaited operation says whose promise is broken besides C06's "completes once
                // its peer has acted": a bus listener that never reports the end of the current
                // entities (C10), an event stream or subscription (C04), a discovery view (C19).
                let mut props = vec![Prop::C06, Prop::C05];
                if what.starts_with("BusListener::") {
                    props.push(Prop::C10);
                } else if what.starts_with("Proxy::") || what == "server emit+sync" {
                    props.push(Prop::C04);
                } else if what.starts_with("Discoverer") || what.starts_with("Lifetime") || what == "Handle::find_object" || what == "Handle::wait_for_object" {
                    props.push(Prop::C19);
                } else if what == "PendingReply" {
                    props.push(Prop::C02);
                }
                vs.push(Violation::new(
                    "liveness.blocked-at-quiescence",
                    &props,
                    format!("task '{}' is blocked in {what} at quiescence although its peer has acted (lost wake-up or deadlock)", info.name),
                ));
            }
        }
        for v in vs {
            self.violate(v);
        }
    }

    /// Lost wake-ups: at quiescence nothing is in flight, so a task that is parked must be
    /// genuinely waiting. Polling it once more (a spurious wake-up) must therefore change nothing: if
    /// the poll completes the task, wakes another task or makes the broker do something, a wake-up
    /// that should have happened did not.
    fn probe_lost_wakeups(&mut self) {
        let mut parked = Vec::new();
        self.exec.parked_tasks(&mut parked);
        let mut ready = Vec::new();
        for t in parked {
            let info = self.tasks.iter().find(|(id, _)| *id == t).map(|(_, i)| i.clone());
            if let Some(i) = &info {
                if i.in_cancel.get() > 0 {
                    continue;
                }
            }
            let what = info.as_ref().and_then(|i| i.blocked.get()).map(|b| b.0).unwrap_or("(runtime task)");
            let ops_before = self.log.borrow().ops_done;
            let bsteps = self.stats.broker_steps;
            crate::api_transport::PROBING.with(|p| p.set(true));
            let outcome = self.exec.poll(t);
            crate::api_transport::PROBING.with(|p| p.set(false));
            self.drain_spawner();
            self.process_tap();
            self.exec.ready_tasks(&mut ready);
            let name = self.exec.name(t).to_string();
            match outcome {
                PollOutcome::Panicked(info) => {
                    self.on_panic(&format!("task '{name}' (poll at quiescence)"), info);
                    return;
                }
                PollOutcome::Done => {}
                PollOutcome::Pending => {
                    let progressed = !ready.is_empty()
                        || self.stats.broker_steps != bsteps
                        || self.log.borrow().ops_done != ops_before
                        || info.as_ref().is_some_and(|i| i.blocked.get().map(|b| b.0) != Some(what) && what != "(runtime task)");
                    if !progressed {
                        continue;
                    }
                }
            }
            self.violate(Violation::new(
                "liveness.lost-wakeup",
                &[Prop::C06, Prop::C15, Prop::C05, Prop::C19],
                format!("at quiescence task '{name}' was parked in {what}, yet polling it once more made progress: the event it waited for had happened without waking it"),
            ));
            return;
        }
        self.log.borrow_mut().probe("lost-wakeup-probe-evaluated");
    }

    /// A caller that dropped its `PendingReply` (protocol >= 1.16) must have told the broker: at
    /// quiescence such a call is either gone or marked aborted in the broker.
    fn check_aborts(&mut self) {
        let mut vs = Vec::new();
        let flags: Vec<(u64, bool, u32)> = self
            .bb
            .borrow()
            .call_abort_flags
            .iter()
            .map(|(id, (f, minor))| (*id, f.get(), *minor))
            .collect();
        for (id, dropped, minor) in flags {
            if !dropped || minor < 16 {
                continue;
            }
            let Some((conn, serial)) = self.call_ids.get(&id).copied() else {
                continue;
            };
            let Some(c) = self.model.conns.get(&conn) else {
                continue;
            };
            if let Some(callee_serial) = c.calls.get(&serial) {
                if self.model.calls.get(callee_serial).is_some_and(|call| !call.aborted) {
                    vs.push(Violation::new(
                        "call.abort-not-sent",
                        &[Prop::C06],
                        format!("call {id} (connection {conn}, serial {serial}): the caller dropped its PendingReply but the broker was never told (the callee still waits)"),
                    ));
                }
            }
        }
        self.log.borrow_mut().probe("abort-oracle-evaluated");
        for v in vs {
            self.violate(v);
        }
    }

    /// C19: discoverer and lifetime views against the bus state, at quiescence.
    fn check_views(&mut self) {
        let mut vs: Vec<Violation> = Vec::new();
        for c in &self.clients {
            let stopped = c.shared.borrow().run_result.is_some();
            if stopped {
                continue;
            }
            let mut res = c.ctx.res.borrow_mut();
            for slot in res.discoverers.iter_mut() {
                let Some((d, spec, evs)) = slot.as_mut() else { continue };
                crate::api_app2::drain_discoverer(d, evs, 0);
                self.log.borrow_mut().probe("discoverer-checked");
                let wanted = uuids_of(spec);
                if !spec.current_only {
                    for (key, (obj, svcs)) in wanted.iter().enumerate() {
                        let mut expect: BTreeMap<ObjectUuid, ObjectId> = BTreeMap::new();
                        for (uuid, o) in &self.model.objs {
                            if obj.is_some_and(|w| w != *uuid) {
                                continue;
                            }
                            if svcs.iter().all(|s| self.model.svc_keys.contains_key(&(*uuid, *s))) {
                                expect.insert(*uuid, ObjectId::new(*uuid, o.cookie));
                            }
                        }
                        let got: BTreeMap<ObjectUuid, ObjectId> = d
                            .entry_iter(key as u32)
                            .map(|e| (e.object_id().uuid, e.object_id()))
                            .collect();
                        if got != expect {
                            vs.push(Violation::new(
                                "discoverer.view-differs",
                                &[Prop::C19],
                                format!(
                                    "client{} discoverer entry {key} ({obj:?}, services {svcs:?}) reports {got:?}, the bus has {expect:?}",
                                    c.ctx.client
                                ),
                            ));
                            continue;
                        }
                        // Current service ids.
                        for (uuid, _) in &got {
                            for s in svcs {
                                let want = self.model.svc_keys.get(&(*uuid, *s)).copied();
                                let have = d.service_id(key as u32, *uuid, *s).map(|id| id.cookie);
                                if want != have {
                                    vs.push(Violation::new(
                                        "discoverer.service-id-differs",
                                        &[Prop::C19],
                                        format!("client{} discoverer entry {key}: service {s:?} of {uuid:?} reported as {have:?}, bus has {want:?}", c.ctx.client),
                                    ));
                                }
                            }
                        }
                    }
                }
                // Event stream: per key and object, created/destroyed alternate starting with
                // created (per segment), every named incarnation existed, and the stream ends in the
                // reported state.
                let mut state: BTreeMap<(u32, ObjectUuid), ObjectId> = BTreeMap::new();
                for ev in evs.iter() {
                    if ev.restart {
                        state.clear();
                        continue;
                    }
                    if !self.created_at.contains_key(&ev.object) {
                        vs.push(Violation::new(
                            "discoverer.event-unknown-object",
                            &[Prop::C19],
                            format!("client{} discoverer event names {:?}, which never existed", c.ctx.client, ev.object),
                        ));
                    }
                    let k = (ev.key, ev.object.uuid);
                    if ev.created {
                        if let Some(prev) = state.insert(k, ev.object) {
                            vs.push(Violation::new(
                                "discoverer.event-order",
                                &[Prop::C19],
                                format!("client{} discoverer: created({:?}) while {:?} was still reported for key {}", c.ctx.client, ev.object, prev, ev.key),
                            ));
                        }
                    } else {
                        match state.remove(&k) {
                            Some(prev) if prev == ev.object => {}
                            other => vs.push(Violation::new(
                                "discoverer.event-order",
                                &[Prop::C19],
                                format!("client{} discoverer: destroyed({:?}) for key {} but the last created was {:?}", c.ctx.client, ev.object, ev.key, other),
                            )),
                        }
                    }
                }
                if !spec.current_only {
                    let reported: BTreeMap<(u32, ObjectUuid), ObjectId> = (0..wanted.len())
                        .flat_map(|key| d.entry_iter(key as u32).map(move |e| ((key as u32, e.object_id().uuid), e.object_id())))
                        .collect();
                    if reported != state && vs.is_empty() {
                        vs.push(Violation::new(
                            "discoverer.events-vs-state",
                            &[Prop::C19],
                            format!("client{} discoverer: events add up to {state:?} but it reports {reported:?}", c.ctx.client),
                        ));
                    }
                }
            }
            for slot in res.lifetimes.iter_mut() {
                let Some((l, id)) = slot.as_mut() else { continue };
                let waker = futures_util::task::noop_waker();
                let mut cx = std::task::Context::from_waker(&waker);
                let ended = l.poll_ended(&mut cx).is_ready();
                let alive = self.model.objs.get(&id.0.uuid).is_some_and(|o| o.cookie == id.0.cookie);
                self.log.borrow_mut().probe("lifetime-checked");
                if ended == alive {
                    vs.push(Violation::new(
                        "lifetime.state-differs",
                        &[Prop::C19],
                        format!("client{}: lifetime of {:?} ended={ended} but its scope is alive={alive}", c.ctx.client, id.0),
                    ));
                }
            }
            for (id, at) in c.ctx.lifetime_obs.borrow().iter() {
                if !self.destroyed_at.get(&id.0).is_some_and(|d| d <= at) {
                    vs.push(Violation::new(
                        "lifetime.ended-while-alive",
                        &[Prop::C19],
                        format!("client{}: lifetime of {:?} resolved at broker step {at} while its scope was alive", c.ctx.client, id.0),
                    ));
                }
            }
            for f in c.ctx.finds.borrow().iter() {
                let created = self.created_at.get(&f.object).copied();
                let destroyed = self.destroyed_at.get(&f.object).copied();
                let ok = created.is_some_and(|c| c <= f.end) && destroyed.map(|d| d >= f.start).unwrap_or(true);
                let uuid_ok = f.want_object.map(|w| w == f.object.uuid).unwrap_or(true);
                if !ok || !uuid_ok {
                    vs.push(Violation::new(
                        "find.object-not-in-window",
                        &[Prop::C19],
                        format!("client{}: find/wait_for_object (steps {}..{}) returned {:?} (created {created:?}, destroyed {destroyed:?}, wanted {:?})", c.ctx.client, f.start, f.end, f.object, f.want_object),
                    ));
                }
                let _ = (&f.services, &f.want_services);
            }
        }
        for v in vs {
            self.violate(v);
        }
    }
}

pub fn api_harness(spec: &RunSpec) -> RunOutput {
    let plan = match &spec.plan {
        Some(p) => p.clone(),
        None => crate::api_gen::gen_api_plan(spec.prop, spec.seed, spec.tier, spec.index, spec.batch_seed),
    };
    if spec.plan_only {
        return RunOutput {
            violations: vec![],
            harness_error: None,
            stats: RunStats::default(),
            choices: vec![],
            trace: vec![],
            plan,
        };
    }
    let mut plan = plan;
    if plan["fault"]["frac"].is_u64() && plan["fault"]["at"].is_null() {
        // Place the fault relative to the number of transport operations the victim performs in a
        // fault-free execution of the same plan.
        let mut dry = plan.clone();
        dry["fault"]["kind"] = json!("none");
        dry["fault"]["at"] = json!(0);
        let mut dspec = spec.clone();
        dspec.plan = Some(dry);
        dspec.choices = None;
        dspec.tracing = false;
        // On a thread of its own: the dry run must not consume this thread's hash keys, or the
        // real run would differ from its later replay (which needs no dry run).
        let out = match crate::runner::on_fresh_thread(spec.seed ^ 0x6472_79, move || api_harness(&dspec)) {
            crate::runner::ThreadOutcome::Done(out) => out,
            _ => {
                return RunOutput {
                    violations: vec![],
                    harness_error: Some("the fault-free dry run did not finish".into()),
                    stats: RunStats::default(),
                    choices: vec![],
                    trace: vec![],
                    plan,
                }
            }
        };
        if out.harness_error.is_some() {
            return out;
        }
        let n = out.stats.aux_count;
        let frac = plan["fault"]["frac"].as_u64().unwrap_or(0);
        plan["fault"]["at"] = json!(n * frac / 1000);
        plan["fault"]["fault_free_ops"] = json!(n);
    }
    let seed: u64 = plan["seed"].as_str().and_then(|s| s.parse().ok()).unwrap_or(spec.seed);
    let mut master = Rng::new(seed);
    let mut uuid_rng = master.fork(1);
    let sched_rng = master.fork(2);
    let mut buggify = master.fork(3);
    let _uuids = entropy::install_uuid_stream(&mut uuid_rng);
    let tap: Rc<RefCell<Vec<TapEvent>>> = Rc::new(RefCell::new(Vec::new()));
    {
        let tap = tap.clone();
        aldrin_broker::verif::install_observer(Some(Box::new(move |ev| tap.borrow_mut().push(ev))));
    }

    let mut exec = Exec::new();
    let broker = Broker::new();
    let handle = broker.handle().clone();
    let broker_task = exec.spawn("broker", broker.run());

    let log: SharedLog = Rc::new(RefCell::new(Log {
        tracing: spec.tracing,
        ..Default::default()
    }));
    let bb: SharedBoard = Rc::new(RefCell::new(Board::default()));
    let spawner: Spawner = Rc::new(RefCell::new(Vec::new()));
    let stopping = Rc::new(Cell::new(false));
    let peers: Rc<RefCell<Vec<Ctx>>> = Rc::new(RefCell::new(Vec::new()));
    let bstep = Rc::new(Cell::new(0usize));

    let pending_permille = plan["pending_permille"].as_u64().unwrap_or(0) as u32;
    let fault = plan["fault"].clone();
    let fault_client = fault["client"].as_u64().map(|c| c as usize);
    let fault_kind = fault["kind"].as_str().unwrap_or("none").to_string();
    let fault_at = fault["at"].as_u64().unwrap_or(0);

    let mut clients = Vec::new();
    for (i, c) in plan["clients"].as_array().cloned().unwrap_or_default().iter().enumerate() {
        let minor = c["minor"].as_u64().unwrap_or(20) as u32;
        let cap = c["capacity"].as_u64().unwrap_or(0) as usize;
        let (inner_b, inner_c) = match c["transport"].as_str().unwrap_or("unbounded") {
            "bounded" => {
                let (a, b) = aldrin_core::channel::bounded(cap.max(1));
                (Inner::Bounded(a), Inner::Bounded(b))
            }
            "tokio" => {
                let (a, b) = crate::io::bi_pipe(
                    &mut buggify.fork(400 + i as u64),
                    if cap == 0 { 1 << 20 } else { cap * 16 },
                    *[1usize, 3, 64, 4096].get(cap % 4).unwrap(),
                    pending_permille,
                );
                (
                    Inner::Tokio(Box::pin(aldrin_core::tokio::TokioTransport::new(a))),
                    Inner::Tokio(Box::pin(aldrin_core::tokio::TokioTransport::new(b))),
                )
            }
            "sim" => {
                let (a, b, _ctl) = transport::pipe(&format!("client{i}"), if cap == 0 { usize::MAX } else { cap }, 0, buggify.fork(100 + i as u64));
                (Inner::Sim(a), Inner::Sim(b))
            }
            _ => {
                let (a, b) = aldrin_core::channel::unbounded();
                (Inner::Unbounded(a), Inner::Unbounded(b))
            }
        };
        let ctl_b: SharedCtl = Rc::new(RefCell::new(FaultCtl::new(buggify.fork(200 + i as u64), pending_permille)));
        let ctl_c: SharedCtl = Rc::new(RefCell::new(FaultCtl::new(buggify.fork(300 + i as u64), pending_permille)));
        if minor >= 15 && minor < 20 {
            ctl_c.borrow_mut().force_minor = Some(minor);
        }
        if c["flush_required"].as_bool().unwrap_or(false) {
            ctl_c.borrow_mut().flush_required = true;
            ctl_b.borrow_mut().flush_required = true;
        }
        if fault_client == Some(i) {
            match fault_kind.as_str() {
                "error" => ctl_c.borrow_mut().fail_at = Some((fault_at, FaultMode::Error)),
                "eof" => ctl_c.borrow_mut().fail_at = Some((fault_at, FaultMode::Eof)),
                "send_error" => ctl_c.borrow_mut().fail_at = Some((fault_at, FaultMode::SendError)),
                _ => {}
            }
        }
        if spec.tracing {
            ctl_b.borrow_mut().trace = Some((format!("conn{i}"), log.clone()));
            ctl_c.borrow_mut().trace = Some((format!("client{i}"), log.clone()));
        }
        let tb = Faulty::new(inner_b, ctl_b);
        let tc = Faulty::new(inner_c, ctl_c.clone());

        let shared = Rc::new(RefCell::new(ClientShared::default()));
        let ctx = Ctx {
            minor,
            client: i,
            res: Rc::new(RefCell::new(Res::default())),
            bb: bb.clone(),
            log: log.clone(),
            spawner: spawner.clone(),
            stopping: stopping.clone(),
            client_faulted: Rc::new(Cell::new(false)),
            peers: peers.clone(),
            bstep: bstep.clone(),
            finds: Rc::new(RefCell::new(Vec::new())),
            lifetime_obs: Rc::new(RefCell::new(Vec::new())),
            no_cancel: Rc::new(Cell::new(plan["no_cancel"].as_bool().unwrap_or(false))),
        };
        peers.borrow_mut().push(ctx.clone());

        let conn_task = {
            let shared = shared.clone();
            let mut handle = handle.clone();
            exec.spawn(format!("conn{i}"), async move {
                match handle.connect(tb).await {
                    Ok(conn) => {
                        {
                            let mut s = shared.borrow_mut();
                            s.conn_handle = Some(conn.handle().clone());
                            s.raw = Some(conn.handle().verif_raw_id());
                        }
                        let r = conn.run().await;
                        shared.borrow_mut().conn_result = Some(r.map_err(|e| format!("{e:?}")));
                    }
                    Err(e) => shared.borrow_mut().conn_result = Some(Err(format!("accept: {e:?}"))),
                }
            })
        };
        let client_task = {
            let shared = shared.clone();
            let res = ctx.res.clone();
            let legacy = minor == 14;
            exec.spawn(format!("client{i}"), async move {
                let b = ClientBuilder::new(tc);
                let r = if legacy { b.connect1().await } else { b.connect().await };
                match r {
                    Ok(client) => {
                        res.borrow_mut().handle = Some(client.handle().clone());
                        let r = client.run().await;
                        shared.borrow_mut().run_result = Some(r.map_err(|e| format!("{e:?}")));
                    }
                    Err(e) => {
                        let mut s = shared.borrow_mut();
                        s.connect_err = Some(format!("{e:?}"));
                        s.run_result = Some(Err(format!("connect: {e:?}")));
                    }
                }
            })
        };
        clients.push(ClientRt {
            ctx,
            shared,
            ctl: ctl_c,
            conn_task,
            client_task,
            apps_spawned: false,
            minor,
            cause_done: false,
        });
    }

    let scripts = actor_scripts(&plan);
    let mut w = World {
        exec,
        handle,
        broker_task,
        clients,
        tasks: Vec::new(),
        spawner,
        log: log.clone(),
        model: Model::new(),
        tap,
        pending_input: None,
        bstep,
        stats: RunStats::default(),
        sig: Fnv::new(),
        harness_error: None,
        violations: Vec::new(),
        created_at: BTreeMap::new(),
        destroyed_at: BTreeMap::new(),
        aux: Vec::new(),
        prop: spec.prop,
        registered: BTreeSet::new(),
        call_ids: BTreeMap::new(),
        bb: bb.clone(),
    };

    let mut chooser = match &spec.choices {
        Some(c) => Chooser::replay(c.clone()),
        None => {
            match plan["sched"].as_str() {
                Some("pct") => Chooser::pct(sched_rng, plan["pct_depth"].as_u64().unwrap_or(3) as usize, 2000),
                Some("sticky") => Chooser::sticky(sched_rng),
                _ => Chooser::random(sched_rng),
            }
        }
    };
    let spurious = plan["spurious_permille"].as_u64().unwrap_or(0) as u32;
    let max_steps = plan["max_steps"].as_u64().unwrap_or(60_000) as usize;
    let mut stage = 0u8;
    let mut ready = Vec::new();
    let mut parked = Vec::new();
    let clean_cause = matches!(fault_kind.as_str(), "shutdown" | "drop_handles" | "broker_shutdown" | "shutdown_conn" | "broker_shutdown+send_error" | "broker_shutdown+shutdown");
    // Exemptions that concern a broker shutdown apply to the combined cause too.
    let broker_shutdown_cause = fault_kind.starts_with("broker_shutdown");

    loop {
        if !w.violations.is_empty() || w.harness_error.is_some() || !log.borrow().violations.is_empty() {
            break;
        }
        if w.stats.steps >= max_steps {
            w.stats.step_cap_hit = true;
            w.violate(Violation::new(
                "liveness.no-quiescence",
                &[Prop::C06, Prop::C15, Prop::C19, Prop::C05],
                format!("no quiescence within {max_steps} steps"),
            ));
            break;
        }

        // Application tasks start once their client is connected.
        for ci in 0..w.clients.len() {
            if !w.clients[ci].apps_spawned && w.clients[ci].ctx.res.borrow().handle.is_some() {
                w.clients[ci].apps_spawned = true;
                for (ai, (client, script)) in scripts.iter().enumerate() {
                    if *client == ci && !script.is_empty() {
                        let ctx = w.clients[ci].ctx.clone();
                        let script = script.clone();
                        let holder: Rc<RefCell<Option<Rc<TaskInfo>>>> = Rc::new(RefCell::new(None));
                        let h2 = holder.clone();
                        let c2 = ctx.clone();
                        let ti = ctx.spawn(format!("client{ci}-app{ai}"), true, async move {
                            let info = h2.borrow().clone().unwrap();
                            app_task(c2, script, info).await
                        });
                        *holder.borrow_mut() = Some(ti);
                    }
                }
            }
        }
        w.drain_spawner();

        // Clean termination causes are applied once the victim's transport has performed `at`
        // operations.
        if clean_cause {
            if let Some(v) = fault_client {
                if v < w.clients.len() && !w.clients[v].cause_done && w.clients[v].ctl.borrow().ops >= fault_at && w.clients[v].ctx.res.borrow().handle.is_some() {
                    w.clients[v].cause_done = true;
                    w.clients[v].ctx.client_faulted.set(true);
                    *w.stats.faults.entry(match fault_kind.as_str() {
                        "shutdown" => "clean_shutdown",
                        "drop_handles" => "last_handle_dropped",
                        "broker_shutdown" => "broker_shutdown",
                        "broker_shutdown+send_error" => "broker_shutdown_with_send_failure",
                        "broker_shutdown+shutdown" => "crossing_shutdowns",
                        _ => "broker_shutdown_conn",
                    }).or_insert(0) += 1;
                    match fault_kind.as_str() {
                        "shutdown" => {
                            let h = w.clients[v].ctx.res.borrow().handle.clone();
                            if let Some(h) = h {
                                h.shutdown();
                            }
                        }
                        "drop_handles" => {
                            // Cancel the victim's application tasks and drop everything that holds
                            // a handle.
                            let ids: Vec<TaskId> = w.tasks.iter().filter(|(_, i)| i.client == v).map(|(id, _)| *id).collect();
                            for id in ids {
                                if let Err(info) = w.exec.drop_task(id) {
                                    w.on_panic("dropping an application task", info);
                                }
                            }
                            for (_, i) in w.tasks.iter().filter(|(_, i)| i.client == v) {
                                i.done.set(true);
                            }
                            let res = std::mem::take(&mut *w.clients[v].ctx.res.borrow_mut());
                            if let Err(info) = crate::exec::catch(move || drop(res)) {
                                w.on_panic("dropping a client's resources", info);
                            }
                            w.spawner.borrow_mut().retain(|(_, i, _)| i.client != v);
                        }
                        "broker_shutdown" | "broker_shutdown+send_error" | "broker_shutdown+shutdown" => {
                            if fault_kind.ends_with("+shutdown") {
                                // Crossing shutdowns: the victim asks to stop at the same moment.
                                let h = w.clients[v].ctx.res.borrow().handle.clone();
                                if let Some(h) = h {
                                    h.shutdown();
                                }
                            }
                            if fault_kind.ends_with("send_error") {
                                // The victim's sending direction breaks while the broker shuts down:
                                // its next send (typically its own Shutdown) fails.
                                let mut ctl = w.clients[v].ctl.borrow_mut();
                                let now = ctl.ops;
                                ctl.fail_at = Some((now, FaultMode::SendError));
                            }
                            for c in &w.clients {
                                c.ctx.client_faulted.set(true);
                            }
                            let mut h = w.handle.clone();
                            let id = w.exec.spawn("broker-shutdown", async move { h.shutdown().await });
                            w.aux.push(id);
                        }
                        _ => {
                            let ch = w.clients[v].shared.borrow().conn_handle.clone();
                            if let Some(ch) = ch {
                                let mut h = w.handle.clone();
                                let id = w.exec.spawn("shutdown-connection", async move {
                                    let _ = h.shutdown_connection(&ch).await;
                                });
                                w.aux.push(id);
                            }
                        }
                    }
                }
            }
        }

        // A client whose run() has returned (fault, shutdown) is "faulted" from then on.
        for c in &w.clients {
            if c.shared.borrow().run_result.is_some() {
                c.ctx.client_faulted.set(true);
            }
            if c.ctl.borrow().fired {
                c.ctx.client_faulted.set(true);
            }
        }

        w.exec.ready_tasks(&mut ready);
        if ready.is_empty() {
            stage += 1;
            log.borrow_mut().tr(|| format!("quiescent; stage {stage}"));
            match stage {
                1 => {
                    w.probe_lost_wakeups();
                    if w.violations.is_empty() {
                        w.check_blocked(false);
                        w.check_aborts();
                    }
                    // The view checks call into the discoverers and lifetimes synchronously.
                    if let Err(info) = crate::exec::catch(|| w.check_views()) {
                        w.on_panic("polling a discoverer or lifetime", info);
                    }
                    stopping.set(true);
                    for c in &w.clients {
                        let h = c.ctx.res.borrow().handle.clone();
                        if let Some(h) = h {
                            h.shutdown();
                        }
                    }
                }
                2 => {
                    // Everything that holds a handle goes away; every client must have stopped.
                    for ci in 0..w.clients.len() {
                        let res = std::mem::take(&mut *w.clients[ci].ctx.res.borrow_mut());
                        if let Err(info) = crate::exec::catch(move || drop(res)) {
                            w.on_panic("dropping a client's resources", info);
                        }
                    }
                    w.check_blocked(true);
                    let mut h = w.handle.clone();
                    let id = w.exec.spawn("shutdown-idle", async move { h.shutdown_idle().await });
                    w.aux.push(id);
                }
                3 => {}
                _ => break,
            }
            continue;
        }

        if spurious > 0 && buggify.chance(spurious, 1000) {
            w.exec.parked_tasks(&mut parked);
            if !parked.is_empty() {
                let t = parked[buggify.below(parked.len())];
                w.stats.spurious_polls += 1;
                if let PollOutcome::Panicked(info) = w.exec.poll(t) {
                    let name = w.exec.name(t).to_string();
                    w.on_panic(&format!("task '{name}' (spurious poll)"), info);
                }
                w.process_tap();
                w.stats.steps += 1;
                continue;
            }
        }

        let keys: Vec<u64> = ready.iter().map(|t| *t as u64).collect();
        let idx = chooser.choose(&keys);
        log.borrow_mut().thash.u64(keys[idx]);
        let t = ready[idx];
        if let PollOutcome::Panicked(info) = w.exec.poll(t) {
            let name = w.exec.name(t).to_string();
            w.on_panic(&format!("task '{name}'"), info);
        }
        w.process_tap();
        w.stats.steps += 1;
    }

    // Final checks.
    let had_violation = !w.violations.is_empty() || !log.borrow().violations.is_empty();
    if !had_violation && w.harness_error.is_none() {
        let mut vs = Vec::new();
        if w.exec.state(w.broker_task) != TaskState::Done {
            vs.push(Violation::new(
                "liveness.broker-run",
                &[Prop::C06, Prop::C09],
                "Broker::run has not returned although every client shut down and shutdown_idle was requested".into(),
            ));
        }
        for (i, c) in w.clients.iter().enumerate() {
            if w.exec.state(c.client_task) == TaskState::Running {
                vs.push(Violation::new(
                    "liveness.client-run",
                    &[Prop::C15, Prop::C06],
                    format!("Client::run of client{i} has not returned"),
                ));
            }
            if w.exec.state(c.conn_task) == TaskState::Running {
                vs.push(Violation::new(
                    "liveness.connection-run",
                    &[Prop::C15, Prop::C09],
                    format!("Connection::run of client{i} has not returned"),
                ));
            }
            let s = c.shared.borrow();
            let victim = fault_client == Some(i);
            let fired = c.ctl.borrow().fired;
            match &s.run_result {
                // "Ok for the clean cases, the transport error otherwise": a transport that failed
                // while the client was sending, or before the broker's Shutdown reached the client,
                // cannot have ended in a completed shutdown handshake.
                Some(Ok(())) if fired && (c.ctl.borrow().fired_on_send || !c.ctl.borrow().shutdown_seen_at_fire) => {
                    let ctl = c.ctl.borrow();
                    vs.push(Violation::new(
                        "client.run-ok-after-transport-failure",
                        &[Prop::C15],
                        format!(
                            "Client::run of client{i} returned Ok although its transport failed (on a {} operation, broker's Shutdown {} at that point; fault={fault_kind}@{fault_at})",
                            if ctl.fired_on_send { "send-side" } else { "receive" },
                            if ctl.shutdown_seen_at_fire { "already received" } else { "not yet received" },
                        ),
                    ));
                }
                Some(Ok(())) => {}
                Some(Err(e)) if victim && fired && (e.contains("Transport(Injected)") || e.contains("Transport(Eof)")) => {}
                // The broker stopped while this client was still being accepted: the connection was
                // never registered, so there is no shutdown handshake to complete.
                Some(Err(_)) if broker_shutdown_cause && matches!(&s.conn_result, Some(Err(c)) if c.starts_with("accept:")) => {}
                Some(Err(_)) if broker_shutdown_cause && !s.raw.is_some_and(|r| w.registered.contains(&r)) => {}
                // A broker shutdown racing the handshake, or a fault during the handshake.
                Some(Err(e)) if e.starts_with("connect:") && (fired || broker_shutdown_cause) => {}
                Some(Err(e)) => {
                    let rule = if e.contains("UnexpectedMessageReceived") {
                        "client.unexpected-message"
                    } else {
                        "client.run-error"
                    };
                    vs.push(Violation::new(
                        rule,
                        // A client that stops with an error (no fault injected into it) stops
                        // delivering everything the API-level properties promise.
                        &[Prop::C06, Prop::C15, Prop::C12, Prop::C04, Prop::C05, Prop::C10, Prop::C19, Prop::C02, Prop::C03],
                        format!("Client::run of client{i} (1.{}) returned {e} (victim={victim}, fault fired={fired}, fault={fault_kind}@{fault_at})", c.minor),
                    ));
                }
                None => {}
            }
            if victim && fired {
                if let Some(Ok(())) = &s.run_result {
                    // Allowed only if the client had already stopped when the fault fired; the
                    // operation index then lies beyond the operations of a normal shutdown.
                }
            }
        }
        for (id, info) in &w.tasks {
            if w.exec.state(*id) == TaskState::Running {
                vs.push(Violation::new(
                    "liveness.task-pending-at-end",
                    &[Prop::C15, Prop::C06],
                    format!("task '{}' never completed (blocked in {:?})", info.name, info.blocked.get().map(|b| b.0)),
                ));
            }
        }
        if !w.model.conns.is_empty() || !w.model.is_empty_bus() {
            vs.push(Violation::new(
                "teardown.residual",
                &[Prop::C09, Prop::C15],
                format!("after every client stopped the broker still holds conns {:?}, {} objects, {} services, {} channels", w.model.conns.keys().collect::<Vec<_>>(), w.model.objs.len(), w.model.svcs.len(), w.model.channels.len()),
            ));
        }
        // Channel sessions: the consumer saw exactly what the producer sent, in order.
        {
            let lg = log.borrow();
            for (tag, (got, ended)) in &lg.consumed {
                let Some((sent, closed)) = lg.produced.get(tag) else { continue };
                let prefix = got.len() <= sent.len() && got[..] == sent[..got.len()];
                if !prefix {
                    vs.push(Violation::new(
                        "channel.sequence-differs",
                        &[Prop::C05, Prop::C06],
                        format!("channel session {tag}: consumer saw {got:?}, producer sent {sent:?}"),
                    ));
                } else if *closed && *ended && got.len() != sent.len() && fault_kind == "none" && lg.session_tags.contains(tag) {
                    vs.push(Violation::new(
                        "channel.items-lost",
                        &[Prop::C05, Prop::C06],
                        format!("channel session {tag}: producer sent {} items and closed, consumer saw {} and then end-of-stream", sent.len(), got.len()),
                    ));
                }
            }
        }
        for v in vs {
            w.violate(v);
        }
    }

    if let Err(info) = w.exec.drop_all() {
        if w.violations.is_empty() {
            w.on_panic("dropping the remaining tasks", info);
        }
    }
    peers.borrow_mut().clear();
    w.spawner.borrow_mut().clear();
    for c in &w.clients {
        let res = std::mem::take(&mut *c.ctx.res.borrow_mut());
        let _ = crate::exec::catch(move || drop(res));
    }
    aldrin_broker::verif::install_observer(None);
    entropy::uninstall_uuid_stream();

    let mut violations = std::mem::take(&mut w.violations);
    violations.extend(std::mem::take(&mut log.borrow_mut().violations));

    let mut st = std::mem::take(&mut w.stats);
    st.polls = w.exec.total_polls;
    st.signature = w.sig.0;
    {
        let lg = log.borrow();
        st.trace_hash = lg.thash.0;
        for (k, v) in &lg.probes {
            *st.probes.entry(k).or_insert(0) += v;
        }
        st.msgs_sent = lg.ops_done;
        if lg.calls_checked > 0 {
            *st.probes.entry("call-value-checked").or_insert(0) += lg.calls_checked;
        }
        let items: u64 = lg.consumed.values().map(|c| c.0.len() as u64).sum();
        if items > 0 {
            *st.probes.entry("channel-item-delivered").or_insert(0) += items;
        }
    }
    let mut sh = Fnv::new();
    for c in &chooser.choices {
        sh.u64(*c as u64);
    }
    st.schedule_hash = sh.0;
    for c in &w.clients {
        let ctl = c.ctl.borrow();
        if ctl.pendings > 0 {
            *st.faults.entry("io_pending").or_insert(0) += ctl.pendings;
        }
        if ctl.fired {
            *st.faults.entry(match fault_kind.as_str() {
                "eof" => "eof",
                "send_error" => "transport_send_error",
                _ => "transport_error",
            }).or_insert(0) += 1;
        }
    }
    if st.spurious_polls > 0 {
        *st.faults.entry("spurious_poll").or_insert(0) += st.spurious_polls;
    }
    let hit = |st: &RunStats, p: &str| st.probes.get(p).copied().unwrap_or(0) > 0;
    let fault_applied = w.clients.iter().any(|c| c.ctl.borrow().fired || c.cause_done);
    st.nontrivial = st.broker_steps > 20
        && match spec.prop {
            Prop::C15 => fault_applied,
            Prop::C19 => hit(&st, "discoverer-checked") || hit(&st, "lifetime-checked") || hit(&st, "object-found"),
            Prop::C05 => hit(&st, "channel-item-delivered"),
            Prop::C04 => hit(&st, "event-round-checked") || hit(&st, "event-received"),
            Prop::C10 => hit(&st, "listener-round-checked") || hit(&st, "bus-event-received"),
            _ => hit(&st, "call-value-checked") || hit(&st, "channel-item-delivered") || hit(&st, "event-received"),
        };
    // Operations performed by the (first) client's transport: the fault space of C15.
    if let Some(c) = w.clients.first() {
        st.zombies = 0;
        let _ = c;
    }
    if fault_kind != "none" {
        if let (Some(n), Some(base)) = (plan["fault"]["fault_free_ops"].as_u64(), plan["base"].as_u64()) {
            let mut h = Fnv::new();
            h.u64(base);
            h.u64(fault_client.unwrap_or(0) as u64);
            h.str(&fault_kind);
            h.u64(fault_at);
            st.fault_point = Some((h.0, base, 9 * (n + 1)));
        }
    }
    let victim_ops = fault_client.and_then(|v| w.clients.get(v)).map(|c| c.ctl.borrow().ops).unwrap_or(0);
    st.aux_count = victim_ops;

    let trace = std::mem::take(&mut log.borrow_mut().trace);
    RunOutput {
        violations,
        harness_error: w.harness_error,
        stats: st,
        choices: chooser.choices,
        trace,
        plan,
    }
}

#[allow(dead_code)]
fn _unused(_: ServiceUuid, _: &json::Value) {}

mod json {
    pub use serde_json::Value;
}
