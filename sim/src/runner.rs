//! Batch runner: many seeded runs on 16 workers (each run on a fresh thread so that its hash keys are
//! its own), violation confirmation by re-execution, known findings, evidence.

use crate::entropy::set_thread_hash_seed;
use crate::gen::Tier;
use crate::model::{Prop, Violation};
use crate::rng::run_seed;
use crate::wire::RunStats;
use serde_json::json;
use std::collections::{BTreeMap, HashSet};
use std::sync::atomic::{AtomicBool, AtomicU64, Ordering};
use std::sync::{Arc, Mutex};
use std::time::{Duration, Instant};

/// What a harness returns for one run.
pub struct RunOutput {
    pub violations: Vec<Violation>,
    pub harness_error: Option<String>,
    pub stats: RunStats,
    pub choices: Vec<u32>,
    pub trace: Vec<String>,
    /// The fully expanded plan (for replay files and samples).
    pub plan: serde_json::Value,
}

/// One run to execute: either generated from (seed, index) or replayed from a plan.
#[derive(Clone)]
pub struct RunSpec {
    pub prop: Prop,
    pub tier: Tier,
    pub seed: u64,
    pub index: u64,
    /// Seed of the whole batch (VERIF_SEED).
    pub batch_seed: u64,
    pub plan: Option<serde_json::Value>,
    pub choices: Option<Vec<u32>>,
    pub tracing: bool,
    /// Only expand the plan (used to report a run that hung).
    pub plan_only: bool,
}

pub type HarnessFn = fn(&RunSpec) -> RunOutput;

/// A run whose thread does not come back within this many seconds is reported as a hang (a task
/// poll that never returns cannot be preempted; the thread is abandoned).
pub const HANG_SECS: u64 = 60;

pub enum ThreadOutcome<R> {
    Done(R),
    Panicked(String),
    Hung,
}

/// Runs `f` on a fresh OS thread whose `RandomState` keys derive from `hash_seed`.
pub fn on_fresh_thread<R: Send + 'static>(
    hash_seed: u64,
    f: impl FnOnce() -> R + Send + 'static,
) -> ThreadOutcome<R> {
    let (tx, rx) = std::sync::mpsc::channel();
    let handle = std::thread::Builder::new()
        .stack_size(8 << 20)
        .spawn(move || {
            set_thread_hash_seed(hash_seed);
            let r = f();
            let _ = tx.send(r);
        })
        .expect("spawn run thread");
    match rx.recv_timeout(Duration::from_secs(HANG_SECS)) {
        Ok(r) => {
            let _ = handle.join();
            ThreadOutcome::Done(r)
        }
        Err(std::sync::mpsc::RecvTimeoutError::Timeout) => ThreadOutcome::Hung,
        Err(std::sync::mpsc::RecvTimeoutError::Disconnected) => {
            let msg = match handle.join() {
                Err(e) => e
                    .downcast_ref::<String>()
                    .cloned()
                    .or_else(|| e.downcast_ref::<&str>().map(|s| s.to_string()))
                    .unwrap_or_else(|| "<panic>".into()),
                Ok(()) => "run thread ended without a result".into(),
            };
            ThreadOutcome::Panicked(format!("simulator panicked outside a task poll: {msg}"))
        }
    }
}

pub fn execute(harness: HarnessFn, spec: RunSpec) -> RunOutput {
    let hash_seed = spec.seed ^ 0x6861_7368;
    let spec2 = spec.clone();
    let empty = |plan: serde_json::Value| RunOutput {
        violations: vec![],
        harness_error: None,
        stats: RunStats::default(),
        choices: spec.choices.clone().unwrap_or_default(),
        trace: vec![],
        plan,
    };
    match on_fresh_thread(hash_seed, move || harness(&spec2)) {
        ThreadOutcome::Done(out) => out,
        ThreadOutcome::Panicked(e) => {
            let mut out = empty(spec.plan.clone().unwrap_or(serde_json::Value::Null));
            out.harness_error = Some(e);
            out
        }
        ThreadOutcome::Hung => {
            // Regenerate the plan for the report (generation is cheap and deterministic).
            let plan = match &spec.plan {
                Some(p) => p.clone(),
                None => {
                    let mut s3 = spec.clone();
                    s3.plan_only = true;
                    harness(&s3).plan
                }
            };
            let mut out = empty(plan);
            out.choices = Vec::new();
            out.violations.push(Violation::new(
                "liveness.poll-never-returns",
                &[Prop::C06, Prop::C15, Prop::C11, Prop::C09, Prop::C14, Prop::C19, Prop::C05],
                format!(
                    "the run did not finish within {HANG_SECS} s of wall-clock time: some future's poll never returns (busy loop inside one poll), so a single-threaded executor makes no progress"
                ),
            ));
            out
        }
    }
}

#[derive(Debug, Clone)]
pub struct KnownFinding {
    pub property: String,
    pub id: String,
    pub status: String,
    pub rule: String,
    pub detail_contains: Vec<String>,
    pub what: String,
}

pub fn load_known_findings(path: &str) -> Vec<KnownFinding> {
    let Ok(text) = std::fs::read_to_string(path) else {
        return Vec::new();
    };
    let Ok(v) = serde_json::from_str::<serde_json::Value>(&text) else {
        eprintln!("HARNESS-ERROR: {path} is not valid JSON");
        std::process::exit(2);
    };
    v["findings"]
        .as_array()
        .map(|arr| {
            arr.iter()
                .map(|f| KnownFinding {
                    property: f["property"].as_str().unwrap_or("").to_string(),
                    id: f["id"].as_str().unwrap_or("").to_string(),
                    status: f["status"].as_str().unwrap_or("").to_string(),
                    rule: f["rule"].as_str().unwrap_or("").to_string(),
                    detail_contains: f["detail_contains"]
                        .as_array()
                        .map(|a| {
                            a.iter()
                                .filter_map(|s| s.as_str().map(str::to_string))
                                .collect()
                        })
                        .unwrap_or_default(),
                    what: f["what"].as_str().unwrap_or("").to_string(),
                })
                .collect()
        })
        .unwrap_or_default()
}

pub fn match_known<'a>(known: &'a [KnownFinding], prop: Prop, v: &Violation) -> Option<&'a KnownFinding> {
    known.iter().find(|k| {
        k.status == "known"
            && k.property == prop.name()
            && k.rule == v.rule
            && k.detail_contains.iter().all(|s| v.detail.contains(s.as_str()))
    })
}

pub struct BatchCfg {
    pub prop: Prop,
    pub tier: Tier,
    pub base_seed: u64,
    pub max_runs: u64,
    pub max_secs: f64,
    pub workers: usize,
    pub harness: HarnessFn,
    pub nontrivial: fn(&RunStats) -> bool,
    pub first_index: u64,
    /// Hand-written plans executed before the generated ones (run indices 0..directed.len()).
    pub directed: Vec<serde_json::Value>,
    /// Execute only the run with this batch-relative number (supervisor re-execution).
    pub only: Option<u64>,
}

/// In-flight bookkeeping for the supervising parent process: which run each worker is executing,
/// written to the file named by VERIF_INFLIGHT (fixed-size slots, one per worker, plus one for the
/// confirm / minimise phase). If this process dies abnormally (a panic inside a destructor during
/// unwinding aborts the process and cannot be caught), the parent finds the culprit among them.
pub mod inflight {
    use std::os::unix::fs::FileExt;
    use std::sync::OnceLock;

    pub const SLOT: usize = 32;
    static FILE: OnceLock<Option<std::fs::File>> = OnceLock::new();

    fn file() -> Option<&'static std::fs::File> {
        FILE.get_or_init(|| {
            let p = std::env::var("VERIF_INFLIGHT").ok()?;
            std::fs::OpenOptions::new().write(true).create(true).truncate(false).open(p).ok()
        })
        .as_ref()
    }

    pub fn set(slot: usize, tag: char, i: u64) {
        if let Some(f) = file() {
            let mut buf = [b' '; SLOT];
            let s = format!("{tag} {i}");
            buf[..s.len()].copy_from_slice(s.as_bytes());
            buf[SLOT - 1] = b'\n';
            let _ = f.write_at(&buf, (slot * SLOT) as u64);
        }
    }
}

/// The process was killed by a signal or ended with a code no check path produces.
pub fn died_abnormally(st: &std::process::ExitStatus) -> bool {
    use std::os::unix::process::ExitStatusExt;
    st.signal().is_some() || !matches!(st.code(), Some(0) | Some(1) | Some(2))
}

pub struct Found {
    pub index: u64,
    pub seed: u64,
    pub plan: serde_json::Value,
    pub choices: Vec<u32>,
    pub violation: Violation,
    pub trace_hash: u64,
}

#[derive(Default)]
pub struct BatchOut {
    pub evaluations: u64,
    pub nontrivial_runs: u64,
    pub distinct: HashSet<u64>,
    pub schedules: HashSet<u64>,
    pub probes: BTreeMap<String, u64>,
    pub faults: BTreeMap<String, u64>,
    pub steps_total: u64,
    pub steps_max: u64,
    pub polls_total: u64,
    pub broker_steps_total: u64,
    pub msgs_total: u64,
    pub zombies: u64,
    pub step_cap_hits: u64,
    pub replayed_for_determinism: u64,
    pub found: Option<Found>,
    pub known_hits: BTreeMap<String, (u64, String)>,
    pub foreign_rule_hits: BTreeMap<String, u64>,
    pub harness_error: Option<String>,
    pub samples: Vec<serde_json::Value>,
    pub wall_s: f64,
    pub first_seed: u64,
    pub last_seed: u64,
    pub sched_mix: BTreeMap<String, u64>,
    pub fault_points: HashSet<u64>,
    pub fault_bases: BTreeMap<u64, u64>,
}

pub fn run_batch(cfg: &BatchCfg, known: &[KnownFinding]) -> BatchOut {
    let start = Instant::now();
    let next = Arc::new(AtomicU64::new(0));
    let stop = Arc::new(AtomicBool::new(false));
    let out = Arc::new(Mutex::new(BatchOut::default()));
    let deadline = start + Duration::from_secs_f64(cfg.max_secs);
    let known: Arc<Vec<KnownFinding>> = Arc::new(known.to_vec());

    std::thread::scope(|scope| {
        for worker in 0..cfg.workers {
            let next = next.clone();
            let stop = stop.clone();
            let out = out.clone();
            let known = known.clone();
            scope.spawn(move || loop {
                if stop.load(Ordering::Relaxed) || Instant::now() >= deadline {
                    break;
                }
                let mut i = next.fetch_add(1, Ordering::Relaxed);
                if i >= cfg.max_runs {
                    break;
                }
                if let Some(only) = cfg.only {
                    if i > 0 {
                        break;
                    }
                    i = only;
                }
                inflight::set(worker, 'R', i);
                let index = cfg.first_index + i;
                let seed = run_seed(cfg.base_seed, index);
                let nd = cfg.directed.len() as u64;
                let want_sample = i >= nd && i < nd + 2;
                let spec = RunSpec {
                    prop: cfg.prop,
                    tier: cfg.tier,
                    seed,
                    index,
                    batch_seed: cfg.base_seed,
                    plan: cfg.directed.get(i as usize).cloned(),
                    choices: None,
                    tracing: want_sample,
                    plan_only: false,
                };
                let res = execute(cfg.harness, spec.clone());

                // Re-execute about 1 % of the runs and compare the traces.
                let mut redone = false;
                if i % 97 == 3 && res.harness_error.is_none() {
                    let again = execute(cfg.harness, spec.clone());
                    redone = true;
                    if again.stats.trace_hash != res.stats.trace_hash {
                        let mut o = out.lock().unwrap();
                        o.harness_error = Some(format!(
                            "non-determinism: run index {index} seed {seed} gave trace hashes {:x} and {:x}",
                            res.stats.trace_hash, again.stats.trace_hash
                        ));
                        stop.store(true, Ordering::Relaxed);
                        break;
                    }
                }

                let mut o = out.lock().unwrap();
                o.evaluations += 1;
                if redone {
                    o.replayed_for_determinism += 1;
                }
                if o.evaluations == 1 || seed < o.first_seed {
                    o.first_seed = seed;
                }
                o.last_seed = o.last_seed.max(seed);
                if let Some(e) = res.harness_error {
                    o.harness_error = Some(format!("run index {index} seed {seed}: {e}"));
                    stop.store(true, Ordering::Relaxed);
                    break;
                }
                let st = &res.stats;
                o.steps_total += st.steps as u64;
                o.steps_max = o.steps_max.max(st.steps as u64);
                o.polls_total += st.polls;
                o.broker_steps_total += st.broker_steps as u64;
                o.msgs_total += st.msgs_sent + st.msgs_received;
                o.zombies += st.zombies;
                if st.step_cap_hit {
                    o.step_cap_hits += 1;
                }
                for (k, v) in &st.probes {
                    *o.probes.entry(k.to_string()).or_insert(0) += v;
                }
                for (k, v) in &st.faults {
                    *o.faults.entry(k.to_string()).or_insert(0) += v;
                }
                o.schedules.insert(st.schedule_hash);
                if let Some((point, base, space)) = st.fault_point {
                    o.fault_points.insert(point);
                    o.fault_bases.insert(base, space);
                }
                if let Some(s) = res.plan.get("sched").and_then(|s| s.as_str()) {
                    *o.sched_mix.entry(s.to_string()).or_insert(0) += 1;
                }
                if (cfg.nontrivial)(st) {
                    o.nontrivial_runs += 1;
                    o.distinct.insert(st.signature);
                }
                if want_sample {
                    let mut trace = res.trace.clone();
                    if trace.len() > 60 {
                        trace.truncate(60);
                        trace.push("…".into());
                    }
                    o.samples.push(json!({
                        "run_index": index,
                        "seed": seed.to_string(),
                        "plan": res.plan,
                        "trace_head": trace,
                        "steps": st.steps,
                    }));
                }

                for v in res.violations {
                    if !v.props.contains(&cfg.prop) {
                        *o.foreign_rule_hits.entry(v.rule.clone()).or_insert(0) += 1;
                        // Debugging aid: keep the inputs of runs that hit a rule of another property.
                        if let Ok(dir) = std::env::var("VERIF_FOREIGN_DUMP") {
                            let doc = json!({
                                "property": cfg.prop.name(), "tier": cfg.tier.name(), "base_seed": "0",
                                "run_index": index, "run_seed": seed.to_string(), "minimised": false,
                                "plan": res.plan, "choices": res.choices,
                                "violation": {"rule": v.rule, "detail": v.detail}, "trace_hash": format!("{:016x}", st.trace_hash),
                            });
                            let _ = std::fs::write(format!("{dir}/foreign-{}-{}.json", cfg.prop.name(), seed), doc.to_string());
                        }
                        continue;
                    }
                    if let Some(k) = match_known(&known, cfg.prop, &v) {
                        let e = o
                            .known_hits
                            .entry(k.id.clone())
                            .or_insert((0, k.what.clone()));
                        e.0 += 1;
                        continue;
                    }
                    if o.found.is_none() {
                        o.found = Some(Found {
                            index,
                            seed,
                            plan: res.plan.clone(),
                            choices: res.choices.clone(),
                            violation: v,
                            trace_hash: st.trace_hash,
                        });
                        stop.store(true, Ordering::Relaxed);
                    }
                    break;
                }
            });
        }
    });

    let mut o = Arc::try_unwrap(out)
        .unwrap_or_else(|_| panic!("batch output still shared"))
        .into_inner()
        .unwrap();
    o.samples.sort_by_key(|s| s["run_index"].as_u64().unwrap_or(0));
    o.wall_s = start.elapsed().as_secs_f64();
    o
}

/// Re-executes a found violation from its plan and choice list; Ok(output) when it reproduces.
pub fn confirm(harness: HarnessFn, prop: Prop, tier: Tier, f: &Found, tracing: bool) -> Result<RunOutput, String> {
    let spec = RunSpec {
        prop,
        tier,
        seed: f.seed,
        index: f.index,
        batch_seed: 0,
        plan: Some(f.plan.clone()),
        // An empty choice list means "the schedule derived from the plan's seed".
        choices: if f.choices.is_empty() { None } else { Some(f.choices.clone()) },
        tracing,
        plan_only: false,
    };
    let res = execute(harness, spec);
    if let Some(e) = res.harness_error {
        return Err(format!("harness error during replay: {e}"));
    }
    match res
        .violations
        .iter()
        .find(|v| v.rule == f.violation.rule && v.props.contains(&prop))
    {
        Some(_) => Ok(res),
        None => Err(format!(
            "violation {} did not reproduce from its plan and choice list (got {:?})",
            f.violation.rule,
            res.violations.iter().map(|v| v.rule.clone()).collect::<Vec<_>>()
        )),
    }
}
