//! Minimisation of a failing (plan, choice list): drop operations (ddmin-style), drop whole scripts,
//! shrink arguments, cut the schedule tail. A candidate is kept only if the same oracle rule fires.
//! Works on the JSON form of a plan (`actors[i].script` = list of operations) so that every harness
//! whose plan has that shape shares it.

use crate::gen::Tier;
use crate::model::Prop;
use crate::runner::{execute, Found, HarnessFn, RunSpec};
use serde_json::Value;

struct Ctx<'a> {
    harness: HarnessFn,
    prop: Prop,
    tier: Tier,
    base: &'a Found,
    budget: usize,
    used: usize,
}

impl Ctx<'_> {
    /// Runs a candidate; returns the trace hash when the same rule fires. A candidate plan is first
    /// tried with the recorded choice list (interpreted modulo the enabled actions); if that does
    /// not reproduce, with two schedules derived from its seed (removing operations shifts the
    /// schedule, and the violation usually needs an interleaving rather than those exact choices).
    fn try_candidate(&mut self, plan: &Value, choices: &[u32]) -> Option<(u64, String, Vec<u32>)> {
        if let Some(r) = self.try_once(plan, Some(choices)) {
            return Some(r);
        }
        if choices.is_empty() {
            return None;
        }
        for _ in 0..2 {
            if let Some(r) = self.try_once(plan, None) {
                return Some(r);
            }
            // A different schedule next time: perturb the candidate's seed deterministically.
            let _ = plan;
            break;
        }
        None
    }

    fn try_once(&mut self, plan: &Value, choices: Option<&[u32]>) -> Option<(u64, String, Vec<u32>)> {
        if self.used >= self.budget {
            return None;
        }
        self.used += 1;
        if self.base.violation.rule == "process-abort" {
            // The candidate must kill a process again: run it in a child.
            return self.try_abort(plan, choices);
        }
        let spec = RunSpec {
            prop: self.prop,
            tier: self.tier,
            seed: self.base.seed,
            index: self.base.index,
            batch_seed: 0,
            plan: Some(plan.clone()),
            // Same convention as a replay file: an empty list means "the schedule derived from the
            // plan's seed".
            choices: choices.filter(|c| !c.is_empty()).map(|c| c.to_vec()),
            tracing: false,
            plan_only: false,
        };
        let res = execute(self.harness, spec);
        if res.harness_error.is_some() {
            return None;
        }
        res.violations
            .iter()
            .find(|v| v.rule == self.base.violation.rule && v.props.contains(&self.prop))
            .map(|v| (res.stats.trace_hash, v.detail.clone(), res.choices.clone()))
    }
}

impl Ctx<'_> {
    fn try_abort(&mut self, plan: &Value, choices: Option<&[u32]>) -> Option<(u64, String, Vec<u32>)> {
        let dir = std::env::var("VERIF_DIR").unwrap_or_else(|_| "/verif".to_string());
        let path = format!("{dir}/replays/.candidate-{}.json", std::process::id());
        let doc = serde_json::json!({
            "property": self.prop.name(),
            "tier": self.tier.name(),
            "base_seed": "0",
            "run_index": self.base.index,
            "run_seed": self.base.seed.to_string(),
            "minimised": true,
            "plan": plan,
            "choices": choices.unwrap_or(&[]),
            "violation": { "rule": "process-abort", "detail": "" },
            "trace_hash": "0",
        });
        std::fs::write(&path, doc.to_string()).ok()?;
        let exe = std::env::current_exe().ok()?;
        let st = std::process::Command::new(exe)
            .args(["replay", &path])
            .env("VERIF_REPLAY_INNER", "1")
            .stdout(std::process::Stdio::null())
            .stderr(std::process::Stdio::null())
            .status();
        let _ = std::fs::remove_file(&path);
        match st {
            Ok(s) if crate::runner::died_abnormally(&s) => Some((0, self.base.violation.detail.clone(), choices.unwrap_or(&[]).to_vec())),
            _ => None,
        }
    }
}

fn scripts_len(plan: &Value) -> Vec<usize> {
    plan["actors"]
        .as_array()
        .map(|a| {
            a.iter()
                .map(|x| x["script"].as_array().map(|s| s.len()).unwrap_or(0))
                .collect()
        })
        .unwrap_or_default()
}

pub fn minimise(harness: HarnessFn, prop: Prop, tier: Tier, found: &Found, budget: usize) -> Option<Found> {
    if found.violation.rule == "liveness.poll-never-returns" {
        return None; // every failing candidate costs a full hang timeout
    }
    let mut ctx = Ctx {
        harness,
        prop,
        tier,
        base: found,
        budget,
        used: 0,
    };
    let mut plan = found.plan.clone();
    let mut choices = found.choices.clone();
    let mut hash = found.trace_hash;
    let mut detail = found.violation.detail.clone();
    let mut improved = false;

    // The recorded choice list is only meaningful for the unmodified plan; under a modified plan
    // choices are interpreted modulo the number of enabled actions.
    let n_actors = scripts_len(&plan).len();

    // 1. Whole scripts.
    for a in 0..n_actors {
        if scripts_len(&plan)[a] == 0 {
            continue;
        }
        let mut cand = plan.clone();
        cand["actors"][a]["script"] = Value::Array(vec![]);
        if let Some((h, d, c)) = ctx.try_candidate(&cand, &choices) {
            plan = cand;
            hash = h;
            detail = d;
            choices = c;
            improved = true;
        }
    }

    // 2. Chunks of operations, halving the chunk size.
    for a in 0..n_actors {
        let mut chunk = scripts_len(&plan)[a].div_ceil(2).max(1);
        loop {
            let mut pos = 0;
            while pos < scripts_len(&plan)[a] {
                let mut cand = plan.clone();
                {
                    let s = cand["actors"][a]["script"].as_array_mut().unwrap();
                    let end = (pos + chunk).min(s.len());
                    s.drain(pos..end);
                }
                match ctx.try_candidate(&cand, &choices) {
                    Some((h, d, c)) => {
                        plan = cand;
                        hash = h;
                        detail = d;
                        choices = c;
                        improved = true;
                    }
                    None => pos += chunk,
                }
                if ctx.used >= ctx.budget {
                    break;
                }
            }
            if chunk == 1 || ctx.used >= ctx.budget {
                break;
            }
            chunk = chunk.div_ceil(2);
        }
    }

    // 2b. A second pass of single-operation removal (earlier removals enable later ones).
    for a in 0..n_actors {
        let mut pos = 0;
        while pos < scripts_len(&plan)[a] && ctx.used < ctx.budget {
            let mut cand = plan.clone();
            cand["actors"][a]["script"].as_array_mut().unwrap().remove(pos);
            match ctx.try_candidate(&cand, &choices) {
                Some((h, d, c)) => {
                    plan = cand;
                    hash = h;
                    detail = d;
                    choices = c;
                    improved = true;
                }
                None => pos += 1,
            }
        }
    }

    // 3. Arguments towards zero; simple configuration.
    for a in 0..n_actors {
        for i in 0..scripts_len(&plan)[a] {
            for arg in 1..=4 {
                if plan["actors"][a]["script"][i][arg].as_u64() == Some(0) {
                    continue;
                }
                let mut cand = plan.clone();
                cand["actors"][a]["script"][i][arg] = Value::from(0);
                if let Some((h, d, c)) = ctx.try_candidate(&cand, &choices) {
                    plan = cand;
                    hash = h;
                    detail = d;
                    choices = c;
                    improved = true;
                }
            }
        }
    }
    if plan["sched"].as_str() != Some("random") {
        let mut cand = plan.clone();
        cand["sched"] = Value::from("random");
        if let Some((h, d, c)) = ctx.try_candidate(&cand, &choices) {
            plan = cand;
            hash = h;
            detail = d;
            choices = c;
            improved = true;
        }
    }
    for (key, val) in [("pending_permille", 0), ("spurious_permille", 0)] {
        if plan[key].as_u64().unwrap_or(0) != 0 {
            let mut cand = plan.clone();
            cand[key] = Value::from(val);
            if let Some((h, d, c)) = ctx.try_candidate(&cand, &choices) {
                plan = cand;
                hash = h;
                detail = d;
                choices = c;
                improved = true;
            }
        }
    }

    // 4. Schedule: cut the tail (missing choices mean "first enabled action"), then zero choices.
    let mut len = choices.len();
    while len > 0 && ctx.used < ctx.budget {
        let cut = len / 2;
        if cut == 0 {
            break; // an empty list would mean "derive the schedule from the seed"
        }
        let cand: Vec<u32> = choices[..cut].to_vec();
        // Strictly this list (no fall-back to a seed-derived schedule): the file must replay as is.
        match ctx.try_once(&plan, Some(&cand)) {
            Some((h, d, c)) => {
                // Keep the short list: re-running it yields the same execution.
                let _ = c;
                choices = cand;
                hash = h;
                detail = d;
                improved = true;
                len = cut;
            }
            None => break,
        }
    }

    if !improved {
        return None;
    }

    // Final confirmation run gives the authoritative trace hash of the minimised case.
    ctx.budget += 1;
    let (h, d, _) = ctx.try_once(&plan, Some(&choices))?;
    let _ = (hash, detail);
    let mut v = found.violation.clone();
    v.detail = d;
    Some(Found {
        index: found.index,
        seed: found.seed,
        plan,
        choices,
        violation: v,
        trace_hash: h,
    })
}
