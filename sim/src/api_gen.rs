//! Generation of Level B plans (clients, transports, application programs, fault).

use crate::api_app::{AKind, AOp};
use crate::gen::Tier;
use crate::model::Prop;
use crate::rng::Rng;
use serde_json::{json, Value};

fn weights(prop: Prop) -> Vec<(AKind, u32)> {
    use AKind::*;
    match prop {
        Prop::C19 => vec![
            (CreateObject, 14),
            (DestroyObject, 6),
            (DropObject, 5),
            (CreateService, 14),
            (SvcDestroy, 5),
            (SvcDrop, 4),
            (DiscCreate, 8),
            (DiscDrain, 10),
            (DiscRestart, 4),
            (DiscDrop, 1),
            (DiscWaiter, 5),
            (FindObject, 4),
            (WaitForObject, 3),
            (ScopeCreate, 4),
            (ScopeEnd, 3),
            (ScopeDrop, 2),
            (LifetimeBind, 5),
            (LifetimeCheck, 6),
            (LifetimeWaiter, 1),
            (LifetimeDrop, 1),
            (SyncBroker, 2),
            (Yield, 6),
        ],
        // C02 (API share): calls dominate; services and proxies come and go while calls are pending.
        Prop::C02 => vec![
            (CreateObject, 5),
            (DestroyObject, 2),
            (DropObject, 1),
            (CreateService, 9),
            (SvcDestroy, 3),
            (SvcDrop, 2),
            (CreateProxy, 9),
            (DropProxy, 3),
            (Call, 40),
            (SyncClient, 1),
            (SyncBroker, 2),
            (HandleClone, 1),
            (HandleDrop, 1),
            (Yield, 6),
        ],
        // C03 (API share): registry churn through the client library (objects and services created,
        // destroyed, dropped and re-created), with a few calls and lookups as observers.
        Prop::C03 => vec![
            (CreateObject, 14),
            (DestroyObject, 6),
            (DropObject, 5),
            (CreateService, 14),
            (SvcDestroy, 5),
            (SvcDrop, 4),
            (CreateProxy, 6),
            (DropProxy, 2),
            (Call, 8),
            (FindObject, 3),
            (DiscCreate, 2),
            (DiscDrain, 2),
            (SyncBroker, 2),
            (Yield, 6),
        ],
        Prop::C04 => vec![
            (CreateObject, 6),
            (CreateService, 10),
            (SvcEmit, 8),
            (SvcDestroy, 1),
            (CreateProxy, 5),
            (Subscribe, 4),
            (Unsubscribe, 2),
            (SubscribeAll, 2),
            (DrainEvents, 3),
            (EventWaiter, 2),
            (DropProxy, 2),
            (EventRound, 14),
            (SyncBroker, 1),
            (Yield, 5),
        ],
        Prop::C10 => vec![
            (CreateObject, 6),
            (DestroyObject, 2),
            (CreateService, 6),
            (ListenerCreate, 3),
            (ListenerAddFilter, 4),
            (ListenerStart, 3),
            (ListenerStop, 1),
            (ListenerDrain, 2),
            (ListenerWaiter, 1),
            (ListenerDrop, 1),
            (ListenerRound, 14),
            (SyncBroker, 1),
            (Yield, 5),
        ],
        Prop::C05 => vec![
            (ChanSession, 30),
            (ClaimTwiceRound, 6),
            (ChanCreate, 3),
            (ChanUnbind, 2),
            (ChanBind, 2),
            (ChanClaim, 3),
            (ChanClose, 2),
            (ChanDrop, 2),
            (SyncBroker, 2),
            (Yield, 6),
        ],
        _ => vec![
            (CreateObject, 8),
            (DestroyObject, 2),
            (DropObject, 2),
            (CreateService, 9),
            (SvcEmit, 8),
            (SvcDestroy, 2),
            (SvcDrop, 2),
            (CreateProxy, 9),
            (DropProxy, 3),
            (Subscribe, 6),
            (Unsubscribe, 3),
            (SubscribeAll, 3),
            (UnsubscribeAll, 2),
            (DrainEvents, 5),
            (EventWaiter, 3),
            (ListenerWaiter, 2),
            (DiscWaiter, 1),
            (EventRound, 3),
            (ListenerRound, 2),
            (ClaimTwiceRound, 2),
            (Call, 14),
            (ChanSession, 5),
            (ChanCreate, 4),
            (ChanUnbind, 4),
            (ChanBind, 4),
            (ChanClaim, 4),
            (ChanEstablish, 2),
            (ChanClose, 3),
            (ChanDrop, 3),
            (SyncClient, 1),
            (SyncBroker, 2),
            (ListenerCreate, 3),
            (ListenerAddFilter, 4),
            (ListenerRemoveFilter, 1),
            (ListenerClear, 1),
            (ListenerStart, 3),
            (ListenerStop, 2),
            (ListenerDrain, 2),
            (ListenerDestroy, 1),
            (ListenerDrop, 1),
            (DiscCreate, 2),
            (DiscDrain, 2),
            (DiscRestart, 1),
            (FindObject, 1),
            (WaitForObject, 1),
            (ScopeCreate, 1),
            (ScopeEnd, 1),
            (LifetimeBind, 1),
            (LifetimeCheck, 1),
            (LifetimeWaiter, 1),
            (HandleClone, 1),
            (HandleDrop, 1),
            (IntroRegister, 2),
            (IntroQuery, 4),
            (Yield, 6),
        ],
    }
}

pub fn gen_api_plan(prop: Prop, seed: u64, tier: Tier, index: u64, batch_seed: u64) -> Value {
    // For the fault-enumerating property all variants of one base share the program; only the
    // fault (cause, point) and the schedule differ.
    let points: u64 = if prop == Prop::C15 {
        match tier {
            Tier::Quick => 18,
            Tier::Thorough => 126,
        }
    } else {
        1
    };
    let base = index / points;
    let variant = index % points;
    let base_seed = if prop == Prop::C15 {
        crate::rng::run_seed(batch_seed ^ 0x15, base)
    } else {
        seed
    };
    let mut rng = Rng::new(base_seed ^ 0x6170_6967);
    // Double binds of one unbound end used to be kept out of 90 % of the runs (trigger of finding S1,
    // since fixed); now they are kept out of 10 % only.
    let known_avoid = rng.chance(1, 10);
    let no_cancel = rng.chance(1, 5);

    let n_clients = rng.range(2, if tier == Tier::Thorough { 5 } else { 4 });
    let mut clients = Vec::new();
    for _ in 0..n_clients {
        let minor = match rng.below(10) {
            0 => 14,
            1..=5 => 20,
            _ => 15 + rng.below(5) as u32,
        };
        let (transport, capacity) = match rng.below(8) {
            0 | 1 => ("unbounded", 0),
            2 | 3 => ("bounded", *rng.pick(&[1usize, 2, 4, 16])),
            4 | 5 => ("sim", *rng.pick(&[0usize, 1, 2, 4, 16])),
            // The real stream transport over a byte pipe (capacity / chunking derived from it).
            _ => ("tokio", *rng.pick(&[0usize, 1, 2, 3, 5, 8, 64])),
        };
        clients.push(json!({"minor": minor, "transport": transport, "capacity": capacity, "flush_required": rng.chance(1, 3)}));
    }

    let w = weights(prop);
    let kinds: Vec<AKind> = w.iter().map(|x| x.0).collect();
    let ws: Vec<u32> = w.iter().map(|x| x.1).collect();
    let mut actors = Vec::new();
    for c in 0..n_clients {
        let n_tasks = rng.range(1, if prop == Prop::C05 { 2 } else { 3 });
        for _ in 0..n_tasks {
            let n_ops = rng.range(6, if tier == Tier::Thorough { 70 } else { 40 });
            let mut script = Vec::new();
            if rng.chance(2, 3) {
                script.push(AOp::new(AKind::CreateObject, rng.next_u32() >> 8, 0, 0, 0));
                script.push(AOp::new(AKind::CreateService, 0, rng.next_u32() >> 8, rng.next_u32() >> 8, rng.next_u32() >> 8));
            }
            while script.len() < n_ops {
                let k = kinds[rng.weighted(&ws)];
                let mut op = AOp::new(k, rng.next_u32() >> 8, rng.next_u32() >> 8, rng.next_u32() >> 8, rng.next_u32() >> 8);
                if no_cancel {
                    if k == AKind::Call && op.d % 6 < 2 {
                        op.d += 2;
                    }
                    if k == AKind::ChanEstablish {
                        continue;
                    }
                }
                if known_avoid && k == AKind::ChanBind {
                    // S1 (known finding): a second claim of an already claimed end. Binding an
                    // unbound end is done at most once per end in these runs (b bit 8 marks it).
                    op.d |= 0x100;
                }
                script.push(op);
            }
            actors.push(json!({"client": c, "script": script.iter().map(|o| o.to_json()).collect::<Vec<_>>()}));
        }
    }

    let fault = if prop == Prop::C15 {
        let mut frng = Rng::new(crate::rng::run_seed(seed ^ 0xfa, index));
        let kind = ["error", "eof", "send_error", "shutdown", "drop_handles", "broker_shutdown", "shutdown_conn", "broker_shutdown+send_error", "broker_shutdown+shutdown"][variant as usize % 9];
        json!({"client": frng.below(n_clients), "kind": kind, "frac": frng.below(1001)})
    } else {
        json!({"kind": "none"})
    };

    let mut srng = Rng::new(seed ^ 0x7363);
    json!({
        "seed": seed.to_string(),
        "harness": "api",
        "pending_permille": *srng.pick(&[0u32, 0, 10, 50]),
        "spurious_permille": *srng.pick(&[0u32, 0, 5, 20]),
        "sched": *srng.pick(&["random", "random", "pct", "pct", "sticky"]),
        "pct_depth": srng.range(1, 5),
        "max_steps": if tier == Tier::Thorough { 1_500_000 } else { 250_000 },
        "known_avoid": known_avoid,
        "no_cancel": no_cancel,
        "clients": clients,
        "actors": actors,
        "fault": fault,
        "base": base,
    })
}
