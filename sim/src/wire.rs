//! Level A harness: real `Broker`, `Acceptor`/`BrokerHandle::connect` and `Connection` tasks under
//! the deterministic executor; clients are scripted wire-level actors on simulated pipes. The model
//! is stepped in lock step with the broker (hooks H2/H3) and the actors' streams are compared with
//! the model's expectations.

use crate::entropy;
use crate::exec::{Exec, PanicInfo, PollOutcome, TaskId, TaskState};
use crate::model::{snapshot_consistency, ConnId, Model, Prop, Violation};
use crate::rng::{Fnv, Rng};
use crate::sched::{Chooser, SchedKind};
use crate::transport::{pipe, PipeCtl, Side};
use crate::wire_ops::{Blackboard, Known, Op, OpKind, Resolver, SharedBlackboard};
use aldrin_broker::verif::{BrokerSnapshot, TapEvent, TapInput};
use aldrin_broker::{Broker, BrokerHandle, ConnectionHandle};
use aldrin_core::message::*;
use aldrin_core::{ProtocolVersion, SerializedValue, SerializedValueSlice, ValueKind};
use std::cell::RefCell;
use std::collections::{BTreeMap, BTreeSet};
use std::rc::Rc;

#[derive(Debug, Clone, Copy, PartialEq, Eq)]
pub enum Teardown {
    /// Barrier, clean shutdown of every client, then `shutdown_idle`.
    Clean,
    /// Barrier, then `BrokerHandle::shutdown`.
    BrokerShutdown,
}

#[derive(Debug, Clone)]
pub struct ActorPlan {
    pub major: u32,
    pub minor: u32,
    /// Handshake with the legacy `Connect` message.
    pub legacy: bool,
    /// Pipe capacity per direction (0 = unbounded).
    pub capacity: usize,
    /// Not required to be served correctly (C11); everything else is "well-behaved".
    pub abuser: bool,
    /// Sends only what a conformant client may send (C11's well-behaved connections).
    pub conformant: bool,
    /// Maximum number of unanswered requests before the actor waits (0 = unlimited pipelining).
    pub window: usize,
    /// May send ill-formed payloads although it is otherwise an ordinary connection.
    pub garbage: bool,
    /// Connects only after this many other connections have ended (0 = at once).
    pub start_after: u32,
    pub script: Vec<Op>,
}

#[derive(Debug, Clone)]
pub struct WirePlan {
    pub seed: u64,
    pub actors: Vec<ActorPlan>,
    pub pending_permille: u32,
    pub spurious_permille: u32,
    pub sched: SchedKind,
    pub pct_depth: usize,
    pub max_steps: usize,
    pub teardown: Teardown,
    /// Fault enumeration bookkeeping (not part of the execution).
    pub fault_point: Option<(u64, u64, u64)>,
}

impl WirePlan {
    pub fn to_json(&self) -> serde_json::Value {
        serde_json::json!({
            "seed": self.seed.to_string(),
            "pending_permille": self.pending_permille,
            "spurious_permille": self.spurious_permille,
            "sched": match self.sched { SchedKind::Random => "random", SchedKind::Pct => "pct", SchedKind::Sticky => "sticky" },
            "pct_depth": self.pct_depth,
            "max_steps": self.max_steps,
            "teardown": match self.teardown { Teardown::Clean => "clean", Teardown::BrokerShutdown => "broker-shutdown" },
            "fault_point": self.fault_point.map(|(p, b, s)| serde_json::json!([p.to_string(), b, s])),
            "actors": self.actors.iter().map(|a| serde_json::json!({
                "major": a.major, "minor": a.minor, "legacy": a.legacy, "capacity": a.capacity,
                "abuser": a.abuser, "conformant": a.conformant, "window": a.window, "garbage": a.garbage, "start_after": a.start_after,
                "script": a.script.iter().map(|o| o.to_json()).collect::<Vec<_>>(),
            })).collect::<Vec<_>>(),
        })
    }

    pub fn from_json(v: &serde_json::Value) -> Option<Self> {
        let actors = v["actors"]
            .as_array()?
            .iter()
            .map(|a| {
                Some(ActorPlan {
                    major: a["major"].as_u64()? as u32,
                    minor: a["minor"].as_u64()? as u32,
                    legacy: a["legacy"].as_bool()?,
                    capacity: a["capacity"].as_u64()? as usize,
                    abuser: a["abuser"].as_bool()?,
                    conformant: a["conformant"].as_bool().unwrap_or(false),
                    window: a["window"].as_u64().unwrap_or(0) as usize,
                    garbage: a["garbage"].as_bool().unwrap_or(false),
                    start_after: a["start_after"].as_u64().unwrap_or(0) as u32,
                    script: a["script"]
                        .as_array()?
                        .iter()
                        .map(Op::from_json)
                        .collect::<Option<Vec<_>>>()?,
                })
            })
            .collect::<Option<Vec<_>>>()?;
        Some(Self {
            seed: v["seed"].as_str()?.parse().ok()?,
            actors,
            pending_permille: v["pending_permille"].as_u64()? as u32,
            spurious_permille: v["spurious_permille"].as_u64()? as u32,
            sched: match v["sched"].as_str()? {
                "pct" => SchedKind::Pct,
                "sticky" => SchedKind::Sticky,
                _ => SchedKind::Random,
            },
            pct_depth: v["pct_depth"].as_u64()? as usize,
            max_steps: v["max_steps"].as_u64()? as usize,
            teardown: if v["teardown"].as_str()? == "clean" {
                Teardown::Clean
            } else {
                Teardown::BrokerShutdown
            },
            fault_point: v["fault_point"].as_array().and_then(|a| {
                Some((a.first()?.as_str()?.parse().ok()?, a.get(1)?.as_u64()?, a.get(2)?.as_u64()?))
            }),
        })
    }
}

#[derive(Debug, Clone, Copy, PartialEq, Eq)]
enum Phase {
    NotStarted,
    Handshake,
    Connected,
    /// No more sends; still reading.
    Closing,
    Ended,
}

#[derive(Default)]
struct ConnShared {
    raw: Option<usize>,
    handle: Option<ConnectionHandle>,
    accept_err: Option<String>,
    run_result: Option<Result<(), String>>,
}

struct Group {
    msgs: Vec<(Message, Option<ProtocolVersion>)>,
    /// The connection was removed in this step: any subset may have been delivered.
    partial: bool,
}

struct Actor {
    plan: ActorPlan,
    phase: Phase,
    pc: usize,
    script: Vec<Op>,
    stall_until: usize,
    pipe: Option<PipeCtl>,
    task: Option<TaskId>,
    shared: Rc<RefCell<ConnShared>>,
    known: Known,
    version: ProtocolVersion,
    observed: Vec<Message>,
    expected: Vec<Group>,
    sent_shutdown: bool,
    got_shutdown: bool,
    task_dropped: bool,
    /// How the broker removed it: Some(send_shutdown).
    removed: Option<bool>,
    /// An ending that may lose in-flight messages was applied (or it violated the protocol).
    lossy_end: bool,
    barrier: Option<u32>,
    barrier_seen: bool,
    handshake_ok: Option<bool>,
    sent: u64,
    mapped: bool,
    /// Script index of the teardown barrier (a Sync appended by the harness).
    barrier_pc: Option<usize>,
}

#[derive(Debug, Default, Clone)]
pub struct RunStats {
    pub steps: usize,
    pub polls: u64,
    pub broker_steps: usize,
    pub msgs_sent: u64,
    pub msgs_received: u64,
    pub faults: BTreeMap<&'static str, u64>,
    pub probes: BTreeMap<&'static str, u64>,
    pub signature: u64,
    pub trace_hash: u64,
    pub schedule_hash: u64,
    pub zombies: u64,
    pub spurious_polls: u64,
    pub pendings_injected: u64,
    pub nontrivial: bool,
    pub step_cap_hit: bool,
    /// Harness-specific count (Level B: transport operations of the victim client).
    pub aux_count: u64,
    /// Fault enumeration: (hash of the fault point, base program id, size of that base's fault space).
    pub fault_point: Option<(u64, u64, u64)>,
}

pub struct RunResult {
    pub violations: Vec<Violation>,
    pub harness_error: Option<String>,
    pub stats: RunStats,
    pub choices: Vec<u32>,
    pub trace: Vec<String>,
}

enum Action {
    Poll(TaskId),
    ActorStep(usize),
    ActorRecv(usize),
}

struct World {
    exec: Exec,
    handle: BrokerHandle,
    broker_task: TaskId,
    actors: Vec<Actor>,
    bb: SharedBlackboard,
    model: Model,
    tap: Rc<RefCell<Vec<TapEvent>>>,
    pending_input: Option<TapInput>,
    raw_to_actor: BTreeMap<usize, usize>,
    seen_raw: BTreeSet<usize>,
    release_handles: bool,
    /// Registered connections whose actor is not known yet.
    unmapped: BTreeSet<usize>,
    removed_unmapped: Vec<(usize, bool)>,
    violations: Vec<Violation>,
    harness_error: Option<String>,
    stats: RunStats,
    sig: Fnv,
    thash: Fnv,
    trace: Vec<String>,
    tracing: bool,
    buggify: Rng,
    has_abuser: bool,
    stats_expected: Vec<[usize; 5]>,
    stats_results: Rc<RefCell<Vec<[usize; 5]>>>,
    last_snapshot: Option<Box<BrokerSnapshot>>,
    aux_tasks: Vec<TaskId>,
    broker_exited: bool,
    pending_permille_cfg: u32,
}

fn min_version_of_kind(msg: &Message) -> u32 {
    match msg {
        Message::AbortFunctionCall(_) => 16,
        Message::RegisterIntrospection(_)
        | Message::QueryIntrospection(_)
        | Message::QueryIntrospectionReply(_)
        | Message::CreateService2(_)
        | Message::QueryServiceInfo(_)
        | Message::QueryServiceInfoReply(_) => 17,
        Message::SubscribeService(_)
        | Message::SubscribeServiceReply(_)
        | Message::UnsubscribeService(_)
        | Message::SubscribeAllEvents(_)
        | Message::SubscribeAllEventsReply(_)
        | Message::UnsubscribeAllEvents(_)
        | Message::UnsubscribeAllEventsReply(_) => 18,
        Message::CallFunction2(_) => 19,
        Message::Connect2(_) | Message::ConnectReply2(_) => 15,
        _ => 14,
    }
}

/// Rule id and property of a stream mismatch, by message kind.
fn stream_rule(msg: &Message) -> (&'static str, Prop) {
    match msg {
        Message::CallFunction(_)
        | Message::CallFunction2(_)
        | Message::CallFunctionReply(_)
        | Message::AbortFunctionCall(_) => ("stream.calls", Prop::C02),
        Message::CreateObjectReply(_)
        | Message::DestroyObjectReply(_)
        | Message::CreateServiceReply(_)
        | Message::DestroyServiceReply(_)
        | Message::QueryServiceVersionReply(_)
        | Message::QueryServiceInfoReply(_) => ("stream.registry", Prop::C03),
        Message::SubscribeEvent(_)
        | Message::SubscribeEventReply(_)
        | Message::UnsubscribeEvent(_)
        | Message::EmitEvent(_)
        | Message::ServiceDestroyed(_)
        | Message::SubscribeAllEvents(_)
        | Message::SubscribeAllEventsReply(_)
        | Message::UnsubscribeAllEvents(_)
        | Message::UnsubscribeAllEventsReply(_)
        | Message::SubscribeServiceReply(_) => ("stream.events", Prop::C04),
        Message::CreateChannelReply(_)
        | Message::CloseChannelEndReply(_)
        | Message::ChannelEndClosed(_)
        | Message::ClaimChannelEndReply(_)
        | Message::ChannelEndClaimed(_)
        | Message::ItemReceived(_)
        | Message::AddChannelCapacity(_) => ("stream.channels", Prop::C05),
        Message::CreateBusListenerReply(_)
        | Message::DestroyBusListenerReply(_)
        | Message::StartBusListenerReply(_)
        | Message::StopBusListenerReply(_)
        | Message::EmitBusEvent(_)
        | Message::BusListenerCurrentFinished(_) => ("stream.listeners", Prop::C10),
        _ => ("stream.other", Prop::C11),
    }
}

/// Does the serialized value contain a container encoding introduced with protocol 1.20?
/// (Independent shallow scan: walks the value with the repository's kind table only for sizes of
/// scalars; containers are recursed.)
pub fn contains_v2_encoding(v: &SerializedValueSlice) -> bool {
    fn walk(b: &mut &[u8], depth: u32) -> Option<bool> {
        fn take<'a>(b: &mut &'a [u8], n: usize) -> Option<&'a [u8]> {
            if b.len() < n {
                return None;
            }
            let (h, t) = b.split_at(n);
            *b = t;
            Some(h)
        }
        fn varint(b: &mut &[u8], width: usize) -> Option<u64> {
            // Repository varint: first byte <= 255-width is the value itself; otherwise
            // 255-first+... : number of following bytes = first - (255 - width).
            let first = *take(b, 1)?.first()? as usize;
            let lim = 255 - width;
            if first <= lim {
                Some(first as u64)
            } else {
                let n = first - lim;
                let bytes = take(b, n)?;
                let mut v = 0u64;
                for (i, x) in bytes.iter().enumerate() {
                    v |= (*x as u64) << (8 * i);
                }
                Some(v)
            }
        }
        if depth > 40 {
            return None;
        }
        let kind = ValueKind::try_from(*take(b, 1)?.first()?).ok()?;
        use ValueKind as K;
        let key_skip = |b: &mut &[u8], k: K| -> Option<()> {
            match k {
                K::U8Map1 | K::I8Map1 | K::U8Set1 | K::I8Set1 | K::U8Map2 | K::I8Map2 | K::U8Set2
                | K::I8Set2 => {
                    take(b, 1)?;
                }
                K::U16Map1 | K::I16Map1 | K::U16Set1 | K::I16Set1 | K::U16Map2 | K::I16Map2
                | K::U16Set2 | K::I16Set2 => {
                    varint(b, 2)?;
                }
                K::U32Map1 | K::I32Map1 | K::U32Set1 | K::I32Set1 | K::U32Map2 | K::I32Map2
                | K::U32Set2 | K::I32Set2 => {
                    varint(b, 4)?;
                }
                K::U64Map1 | K::I64Map1 | K::U64Set1 | K::I64Set1 | K::U64Map2 | K::I64Map2
                | K::U64Set2 | K::I64Set2 => {
                    varint(b, 8)?;
                }
                K::StringMap1 | K::StringSet1 | K::StringMap2 | K::StringSet2 => {
                    let n = varint(b, 4)? as usize;
                    take(b, n)?;
                }
                _ => {
                    take(b, 16)?;
                }
            }
            Some(())
        };
        Some(match kind {
            K::None => false,
            K::Some => walk(b, depth + 1)?,
            K::Bool | K::U8 | K::I8 => {
                take(b, 1)?;
                false
            }
            K::U16 | K::I16 => {
                varint(b, 2)?;
                false
            }
            K::U32 | K::I32 => {
                varint(b, 4)?;
                false
            }
            K::U64 | K::I64 => {
                varint(b, 8)?;
                false
            }
            K::F32 => {
                take(b, 4)?;
                false
            }
            K::F64 => {
                take(b, 8)?;
                false
            }
            K::String | K::Bytes1 => {
                let n = varint(b, 4)? as usize;
                take(b, n)?;
                false
            }
            K::Uuid | K::Sender | K::Receiver => {
                take(b, 16)?;
                false
            }
            K::ObjectId => {
                take(b, 32)?;
                false
            }
            K::ServiceId => {
                take(b, 64)?;
                false
            }
            K::Vec1 => {
                let n = varint(b, 4)?;
                let mut any = false;
                for _ in 0..n {
                    any |= walk(b, depth + 1)?;
                }
                any
            }
            K::U8Map1 | K::I8Map1 | K::U16Map1 | K::I16Map1 | K::U32Map1 | K::I32Map1
            | K::U64Map1 | K::I64Map1 | K::StringMap1 | K::UuidMap1 => {
                let n = varint(b, 4)?;
                let mut any = false;
                for _ in 0..n {
                    key_skip(b, kind)?;
                    any |= walk(b, depth + 1)?;
                }
                any
            }
            K::U8Set1 | K::I8Set1 | K::U16Set1 | K::I16Set1 | K::U32Set1 | K::I32Set1
            | K::U64Set1 | K::I64Set1 | K::StringSet1 | K::UuidSet1 => {
                let n = varint(b, 4)?;
                for _ in 0..n {
                    key_skip(b, kind)?;
                }
                false
            }
            K::Struct1 => {
                let n = varint(b, 4)?;
                let mut any = false;
                for _ in 0..n {
                    varint(b, 4)?;
                    any |= walk(b, depth + 1)?;
                }
                any
            }
            K::Enum => {
                varint(b, 4)?;
                walk(b, depth + 1)?
            }
            // Everything else is a 1.20 encoding.
            _ => true,
        })
    }
    let mut b: &[u8] = v;
    // If the independent walk cannot parse the value, fall back to "no finding" (the value
    // equality check covers well-formedness).
    walk(&mut b, 0).unwrap_or(false)
}

fn value_equiv(e: &SerializedValueSlice, o: &SerializedValueSlice) -> bool {
    if **e == **o {
        return true;
    }
    match (e.deserialize_as_value(), o.deserialize_as_value()) {
        (Ok(a), Ok(b)) => a == b,
        _ => false,
    }
}

/// Equality of an expected and an observed message modulo the encoding of the payload.
fn msg_matches(e: &Message, o: &Message) -> bool {
    if e.kind() != o.kind() {
        return false;
    }
    // A query the model could not observe the serial of (started and overtaken within one step).
    if let (Message::QueryIntrospection(eq), Message::QueryIntrospection(oq)) = (e, o) {
        if eq.serial >= u32::MAX - 1000 {
            return eq.type_id == oq.type_id;
        }
    }
    match (e.value(), o.value()) {
        (None, None) => e == o,
        (Some(ev), Some(ov)) => {
            if !value_equiv(ev, ov) {
                return false;
            }
            let mut e2 = e.clone();
            let mut o2 = o.clone();
            let unit = SerializedValue::serialize(()).expect("unit");
            *e2.value_mut().unwrap() = unit.clone();
            *o2.value_mut().unwrap() = unit;
            e2 == o2
        }
        _ => false,
    }
}

fn short(msg: &Message) -> String {
    let s = format!("{msg:?}");
    if s.len() > 220 {
        format!("{}…", &s[..220])
    } else {
        s
    }
}

impl World {
    fn fault(&mut self, name: &'static str) {
        *self.stats.faults.entry(name).or_insert(0) += 1;
    }

    fn tr(&mut self, f: impl FnOnce() -> String) {
        if self.tracing {
            let s = f();
            self.trace.push(format!("[{}] {}", self.stats.steps, s));
        }
    }

    fn violate(&mut self, v: Violation) {
        self.tr(|| format!("VIOLATION {} {:?}: {}", v.rule, v.props, v.detail));
        self.violations.push(v);
    }

    fn on_panic(&mut self, what: &str, info: PanicInfo) {
        if info.in_harness() {
            self.harness_error = Some(format!(
                "panic in simulator code while {what}: {} at {}",
                info.message, info.location
            ));
        } else {
            let mut props = vec![Prop::C11, Prop::C09, Prop::C06];
            if !self.has_abuser {
                props = vec![Prop::C09, Prop::C06, Prop::C11, Prop::C02, Prop::C03, Prop::C04, Prop::C05, Prop::C10, Prop::C12];
            }
            self.violate(Violation::new(
                "panic",
                &props,
                format!("{what} panicked: {} at {}", info.message, info.location),
            ));
        }
    }

    // -- actors ---------------------------------------------------------------------------------

    fn start_actor(&mut self, i: usize) {
        let plan = self.actors[i].plan.clone();
        let cap = if plan.capacity == 0 {
            usize::MAX
        } else {
            plan.capacity
        };
        let rng = self.buggify.fork(i as u64);
        let permille = self.pending_permille_cfg;
        let (ta, tb, ctl) = pipe(&format!("actor{i}"), cap, permille, rng);
        // The client side is driven directly; keep the transport object alive in the actor so that
        // dropping it is an explicit action.
        std::mem::forget(tb);

        let shared = self.actors[i].shared.clone();
        let mut handle = self.handle.clone();
        let task = self.exec.spawn(format!("conn{i}"), async move {
            match handle.connect(ta).await {
                Ok(conn) => {
                    {
                        let mut s = shared.borrow_mut();
                        s.raw = Some(conn.handle().verif_raw_id());
                        s.handle = Some(conn.handle().clone());
                    }
                    let res = conn.run().await;
                    shared.borrow_mut().run_result = Some(res.map_err(|e| format!("{e:?}")));
                }
                Err(e) => {
                    shared.borrow_mut().accept_err = Some(format!("{e:?}"));
                }
            }
        });

        let connect: Message = if plan.legacy {
            Connect {
                version: plan.minor,
                value: SerializedValue::serialize(()).expect("unit"),
            }
            .into()
        } else {
            Connect2 {
                major_version: plan.major,
                minor_version: plan.minor,
                value: SerializedValue::serialize(ConnectData::new()).expect("data"),
            }
            .into()
        };
        ctl.push(Side::B, connect);

        let a = &mut self.actors[i];
        a.pipe = Some(ctl);
        a.task = Some(task);
        a.phase = Phase::Handshake;
        self.tr(|| format!("actor{i} starts handshake {}.{} legacy={}", plan.major, plan.minor, plan.legacy));
    }

}

include!("wire_run.rs");
