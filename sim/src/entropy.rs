//! Seams for the nondeterminism sources that are not scheduling: `RandomState` hash keys (process
//! level, via the C symbol `getrandom`) and `Uuid::new_v4()` (hook H1 in aldrin-core).

use crate::rng::{splitmix64, Rng};
use std::cell::{Cell, RefCell};
use std::rc::Rc;
use uuid::Uuid;

thread_local! {
    static HASH_SEED: Cell<Option<u64>> = const { Cell::new(None) };
    static HASH_CTR: Cell<u64> = const { Cell::new(0) };
    static GETRANDOM_CALLS: Cell<u64> = const { Cell::new(0) };
}

/// std looks `getrandom` up weakly to obtain the keys of `RandomState`; defining it here makes the
/// iteration order of every `HashMap`/`HashSet` created on a thread a pure function of the seed
/// installed on that thread with [`set_thread_hash_seed`]. Threads without a seed get real entropy.
///
/// # Safety
/// `buf` must be valid for `len` bytes (guaranteed by the callers, which follow the libc contract).
#[no_mangle]
pub unsafe extern "C" fn getrandom(buf: *mut u8, len: usize, flags: u32) -> isize {
    match HASH_SEED.with(|s| s.get()) {
        Some(seed) => {
            GETRANDOM_CALLS.with(|c| c.set(c.get() + 1));
            let mut i = 0;
            while i < len {
                let ctr = HASH_CTR.with(|c| {
                    let v = c.get();
                    c.set(v + 1);
                    v
                });
                let word = splitmix64(seed ^ splitmix64(ctr)).to_le_bytes();
                let n = (len - i).min(8);
                unsafe {
                    std::ptr::copy_nonoverlapping(word.as_ptr(), buf.add(i), n);
                }
                i += n;
            }
            len as isize
        }

        None => unsafe { libc::syscall(libc::SYS_getrandom, buf, len, flags) as isize },
    }
}

/// Must be the first thing a freshly spawned run thread does (std draws the keys once per thread).
pub fn set_thread_hash_seed(seed: u64) {
    HASH_SEED.with(|s| s.set(Some(seed)));
    HASH_CTR.with(|c| c.set(0));
}

pub fn getrandom_calls() -> u64 {
    GETRANDOM_CALLS.with(|c| c.get())
}

/// Kinds of ids handed out, so that traces are readable: `c0bbbbbb-…-<counter>`.
#[derive(Debug, Default)]
pub struct UuidStream {
    pub issued: u64,
}

pub type SharedUuidStream = Rc<RefCell<UuidStream>>;

fn mk_uuid(d1: u32, n: u64) -> Uuid {
    let b = n.to_be_bytes();
    Uuid::from_fields(d1, 0, 0x4000, &[0x80, 0, b[2], b[3], b[4], b[5], b[6], b[7]])
}

/// Installs the per-run UUID source (hook H1). Ids are `5eedSSSS-0000-4000-8000-<48-bit counter>`
/// with a per-run salt `SSSS` so that different runs do not share cookies.
pub fn install_uuid_stream(rng: &mut Rng) -> SharedUuidStream {
    let stream: SharedUuidStream = Rc::new(RefCell::new(UuidStream::default()));
    let s2 = stream.clone();
    let salt = (rng.next_u64() & 0xffff) as u32;

    aldrin_core::verif::install_uuid_source(Some(Box::new(move || {
        let mut s = s2.borrow_mut();
        s.issued += 1;
        mk_uuid(0x5eed_0000 | salt, s.issued)
    })));

    stream
}

pub fn uninstall_uuid_stream() {
    aldrin_core::verif::install_uuid_source(None);
}

/// A UUID that the simulated bus never issues (for never-issued cookies in requests).
pub fn never_issued_uuid(n: u64) -> Uuid {
    mk_uuid(0xdead_0000, n)
}

/// Fixed pools of well-known UUIDs used by generators (kind 1 = object uuids, 2 = service uuids,
/// 3 = type ids).
pub fn pool_uuid(kind: u8, idx: u64) -> Uuid {
    mk_uuid(0xaaaa_0000 | kind as u32, idx)
}
