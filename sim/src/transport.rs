//! The simulated network: a reliable, ordered, bounded duplex message pipe with fault injection.
//!
//! Both ends implement `AsyncTransport`; in wire-level runs the client end is driven directly by the
//! scheduler through [`PipeCtl`].

use crate::rng::Rng;
use aldrin_core::message::Message;
use aldrin_core::transport::AsyncTransport;
use std::cell::RefCell;
use std::collections::VecDeque;
use std::fmt;
use std::pin::Pin;
use std::rc::Rc;
use std::task::{Context, Poll, Waker};

#[derive(Debug, Clone, Copy, PartialEq, Eq)]
pub enum SimTransportError {
    /// Injected transport failure.
    Injected,
    /// The peer closed its end.
    Eof,
}

impl fmt::Display for SimTransportError {
    fn fmt(&self, f: &mut fmt::Formatter) -> fmt::Result {
        match self {
            Self::Injected => f.write_str("injected transport error"),
            Self::Eof => f.write_str("end of stream"),
        }
    }
}

impl std::error::Error for SimTransportError {}

#[derive(Debug, Clone, Copy, PartialEq, Eq)]
pub enum Side {
    /// Broker side.
    A,
    /// Client side.
    B,
}

impl Side {
    fn idx(self) -> usize {
        match self {
            Self::A => 0,
            Self::B => 1,
        }
    }

    fn other(self) -> Self {
        match self {
            Self::A => Self::B,
            Self::B => Self::A,
        }
    }
}

#[derive(Debug, Default)]
pub struct EndState {
    /// Messages travelling *towards* this end.
    inbox: VecDeque<Message>,
    recv_waker: Option<Waker>,
    send_waker: Option<Waker>,
    /// This end's transport object has been dropped (or the scripted actor closed it).
    closed: bool,
    /// Every operation on this end fails from now on.
    failing: bool,
    /// Operations performed on this end (calls of the four trait methods that did something).
    pub ops: u64,
    /// Fail from operation index `k` on.
    pub fail_at: Option<u64>,
    pub fault_fired: bool,
    pub msgs_in: u64,
    pub msgs_out: u64,
    pub pendings_injected: u64,
}

#[derive(Debug)]
pub struct PipeState {
    ends: [EndState; 2],
    /// Capacity of each direction (`usize::MAX` = unbounded).
    pub capacity: usize,
    /// Probability (per mille) that a ready operation reports `Pending` first (with a wake).
    pub pending_permille: u32,
    rng: Rng,
    /// Record of everything delivered to side B, for the oracle (wire-level runs keep their own).
    pub name: String,
}

#[derive(Clone)]
pub struct PipeCtl(pub Rc<RefCell<PipeState>>);

pub struct SimTransport {
    pipe: Rc<RefCell<PipeState>>,
    side: Side,
}

impl fmt::Debug for SimTransport {
    fn fmt(&self, f: &mut fmt::Formatter) -> fmt::Result {
        write!(f, "SimTransport({:?})", self.side)
    }
}

pub fn pipe(name: &str, capacity: usize, pending_permille: u32, rng: Rng) -> (SimTransport, SimTransport, PipeCtl) {
    let state = Rc::new(RefCell::new(PipeState {
        ends: [EndState::default(), EndState::default()],
        capacity,
        pending_permille,
        rng,
        name: name.to_string(),
    }));
    (
        SimTransport {
            pipe: state.clone(),
            side: Side::A,
        },
        SimTransport {
            pipe: state.clone(),
            side: Side::B,
        },
        PipeCtl(state),
    )
}

impl PipeState {
    fn buggify_pending(&mut self, side: Side, cx: &mut Context) -> bool {
        if self.pending_permille > 0 && self.rng.chance(self.pending_permille, 1000) {
            self.ends[side.idx()].pendings_injected += 1;
            cx.waker().wake_by_ref();
            true
        } else {
            false
        }
    }

    /// Counts an operation on `side` and decides whether the planned fault fires now.
    fn op(&mut self, side: Side) -> Result<(), SimTransportError> {
        let end = &mut self.ends[side.idx()];
        if end.failing {
            return Err(SimTransportError::Injected);
        }
        let k = end.ops;
        end.ops += 1;
        if end.fail_at == Some(k) {
            end.failing = true;
            end.fault_fired = true;
            return Err(SimTransportError::Injected);
        }
        Ok(())
    }

    fn wake_recv(&mut self, side: Side) {
        if let Some(w) = self.ends[side.idx()].recv_waker.take() {
            w.wake();
        }
    }

    fn wake_send(&mut self, side: Side) {
        if let Some(w) = self.ends[side.idx()].send_waker.take() {
            w.wake();
        }
    }

    fn close(&mut self, side: Side) {
        self.ends[side.idx()].closed = true;
        self.ends[side.idx()].inbox.clear();
        // The peer may be parked on either direction.
        self.wake_recv(side.other());
        self.wake_send(side.other());
    }
}

impl Drop for SimTransport {
    fn drop(&mut self) {
        self.pipe.borrow_mut().close(self.side);
    }
}

impl AsyncTransport for SimTransport {
    type Error = SimTransportError;

    fn receive_poll(self: Pin<&mut Self>, cx: &mut Context) -> Poll<Result<Message, Self::Error>> {
        let side = self.side;
        let mut p = self.pipe.borrow_mut();

        if p.ends[side.idx()].failing {
            return Poll::Ready(Err(SimTransportError::Injected));
        }

        if p.ends[side.idx()].inbox.is_empty() {
            if p.ends[side.other().idx()].closed {
                return Poll::Ready(Err(SimTransportError::Eof));
            }
            // A fault planned for "now" also fires while idle (the peer's link breaks).
            let end = &mut p.ends[side.idx()];
            if end.fail_at == Some(end.ops) {
                end.ops += 1;
                end.failing = true;
                end.fault_fired = true;
                return Poll::Ready(Err(SimTransportError::Injected));
            }
            end.recv_waker = Some(cx.waker().clone());
            return Poll::Pending;
        }

        if p.buggify_pending(side, cx) {
            return Poll::Pending;
        }

        if let Err(e) = p.op(side) {
            return Poll::Ready(Err(e));
        }

        let msg = p.ends[side.idx()].inbox.pop_front().unwrap();
        p.ends[side.idx()].msgs_in += 1;
        p.wake_send(side.other());
        Poll::Ready(Ok(msg))
    }

    fn send_poll_ready(self: Pin<&mut Self>, cx: &mut Context) -> Poll<Result<(), Self::Error>> {
        let side = self.side;
        let mut p = self.pipe.borrow_mut();

        if p.ends[side.idx()].failing {
            return Poll::Ready(Err(SimTransportError::Injected));
        }
        if p.ends[side.other().idx()].closed {
            return Poll::Ready(Err(SimTransportError::Eof));
        }

        let cap = p.capacity;
        if p.ends[side.other().idx()].inbox.len() >= cap {
            p.ends[side.idx()].send_waker = Some(cx.waker().clone());
            return Poll::Pending;
        }

        if p.buggify_pending(side, cx) {
            return Poll::Pending;
        }

        Poll::Ready(Ok(()))
    }

    fn send_start(self: Pin<&mut Self>, msg: Message) -> Result<(), Self::Error> {
        let side = self.side;
        let mut p = self.pipe.borrow_mut();
        p.op(side)?;
        if p.ends[side.other().idx()].closed {
            return Err(SimTransportError::Eof);
        }
        p.ends[side.other().idx()].inbox.push_back(msg);
        p.ends[side.idx()].msgs_out += 1;
        p.wake_recv(side.other());
        Ok(())
    }

    fn send_poll_flush(self: Pin<&mut Self>, cx: &mut Context) -> Poll<Result<(), Self::Error>> {
        let side = self.side;
        let mut p = self.pipe.borrow_mut();
        if p.ends[side.idx()].failing {
            return Poll::Ready(Err(SimTransportError::Injected));
        }
        if p.buggify_pending(side, cx) {
            return Poll::Pending;
        }
        if let Err(e) = p.op(side) {
            return Poll::Ready(Err(e));
        }
        Poll::Ready(Ok(()))
    }
}

impl PipeCtl {
    /// Can the scripted peer on `side` enqueue a message for the other side?
    pub fn can_push(&self, side: Side) -> bool {
        let p = self.0.borrow();
        !p.ends[side.idx()].closed && p.ends[side.other().idx()].inbox.len() < p.capacity
    }

    /// Is the opposite transport object gone?
    pub fn peer_closed(&self, side: Side) -> bool {
        self.0.borrow().ends[side.other().idx()].closed
    }

    pub fn is_closed(&self, side: Side) -> bool {
        self.0.borrow().ends[side.idx()].closed
    }

    /// The scripted peer on `side` sends a message.
    pub fn push(&self, side: Side, msg: Message) {
        let mut p = self.0.borrow_mut();
        if p.ends[side.other().idx()].closed {
            return;
        }
        p.ends[side.other().idx()].inbox.push_back(msg);
        p.ends[side.idx()].msgs_out += 1;
        p.wake_recv(side.other());
    }

    pub fn has_inbound(&self, side: Side) -> bool {
        !self.0.borrow().ends[side.idx()].inbox.is_empty()
    }

    pub fn inbound_len(&self, side: Side) -> usize {
        self.0.borrow().ends[side.idx()].inbox.len()
    }

    /// The scripted peer on `side` consumes one message.
    pub fn pop(&self, side: Side) -> Option<Message> {
        let mut p = self.0.borrow_mut();
        let msg = p.ends[side.idx()].inbox.pop_front();
        if msg.is_some() {
            p.ends[side.idx()].msgs_in += 1;
            p.wake_send(side.other());
        }
        msg
    }

    /// The scripted peer on `side` closes its end (EOF for the other side).
    pub fn close(&self, side: Side) {
        self.0.borrow_mut().close(side);
    }

    /// From now on every operation of the transport object on `side` fails.
    pub fn fail_now(&self, side: Side) {
        let mut p = self.0.borrow_mut();
        let end = &mut p.ends[side.idx()];
        if !end.failing {
            end.failing = true;
            end.fault_fired = true;
        }
        p.wake_recv(side);
        p.wake_send(side);
    }

    pub fn set_fail_at(&self, side: Side, k: u64) {
        self.0.borrow_mut().ends[side.idx()].fail_at = Some(k);
    }

    pub fn ops(&self, side: Side) -> u64 {
        self.0.borrow().ends[side.idx()].ops
    }

    pub fn fault_fired(&self, side: Side) -> bool {
        self.0.borrow().ends[side.idx()].fault_fired
    }

    pub fn pendings_injected(&self) -> u64 {
        let p = self.0.borrow();
        p.ends[0].pendings_injected + p.ends[1].pendings_injected
    }
}
