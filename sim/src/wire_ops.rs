//! Wire-level client actors: abstract operations, their resolution into concrete messages against
//! what the actor has observed so far, and the bookkeeping of that knowledge.

use crate::entropy::{never_issued_uuid, pool_uuid};
use aldrin_core::message::*;
use aldrin_core::{
    BusListenerCookie, BusListenerFilter, BusListenerScope, BusListenerServiceFilter, Bytes,
    ChannelCookie, ChannelEnd, ChannelEndWithCapacity, Enum, ObjectCookie, ObjectUuid,
    ProtocolVersion, SerializedValue, ServiceCookie, ServiceInfo, ServiceUuid, Struct, TypeId,
    Value,
};
use std::cell::RefCell;
use std::collections::{BTreeMap, HashMap, HashSet};
use std::rc::Rc;
use uuid::Uuid;

macro_rules! op_kinds {
    ($($name:ident),* $(,)?) => {
        #[derive(Debug, Clone, Copy, PartialEq, Eq, PartialOrd, Ord, Hash)]
        #[repr(u8)]
        pub enum OpKind { $($name),* }

        impl OpKind {
            pub const ALL: &'static [OpKind] = &[$(OpKind::$name),*];

            pub fn name(self) -> &'static str {
                match self { $(OpKind::$name => stringify!($name)),* }
            }

            pub fn parse(s: &str) -> Option<Self> {
                match s { $(stringify!($name) => Some(OpKind::$name),)* _ => None }
            }
        }
    };
}

op_kinds! {
    CreateObject, DestroyObject, CreateService, DestroyService, QueryVersion, QueryInfo,
    Call, Reply, Abort,
    SubscribeEvent, UnsubscribeEvent, SubscribeAll, UnsubscribeAll, SubscribeService,
    UnsubscribeService, EmitEvent,
    CreateChannel, ClaimChannelEnd, CloseChannelEnd, SendItem, AddCapacity,
    Sync,
    CreateListener, DestroyListener, AddFilter, RemoveFilter, ClearFilters, StartListener,
    StopListener,
    RegisterIntrospection, QueryIntrospection, QueryIntrospectionReply,
    Raw,
    // Non-message operations (always enabled when they are next in the script).
    EndShutdown, EndTransportError, EndEof, EndDropTask, EndBrokerShutdownConn,
    Stall, TakeStatistics,
    // Directed scenarios: wait until any service exists on the bus / until this actor was told that
    // somebody subscribed to one of its events.
    WaitService, WaitSubscribed,
}

impl OpKind {
    pub fn is_message(self) -> bool {
        (self as u8) <= (OpKind::Raw as u8)
    }

    pub fn is_ending(self) -> bool {
        matches!(
            self,
            Self::EndShutdown
                | Self::EndTransportError
                | Self::EndEof
                | Self::EndDropTask
                | Self::EndBrokerShutdownConn
        )
    }
}

#[derive(Debug, Clone, Copy, PartialEq, Eq)]
pub struct Op {
    pub k: OpKind,
    pub a: u32,
    pub b: u32,
    pub c: u32,
    pub d: u32,
}

impl Op {
    pub fn new(k: OpKind, a: u32, b: u32, c: u32, d: u32) -> Self {
        Self { k, a, b, c, d }
    }

    pub fn to_json(self) -> serde_json::Value {
        serde_json::json!([self.k.name(), self.a, self.b, self.c, self.d])
    }

    pub fn from_json(v: &serde_json::Value) -> Option<Self> {
        let arr = v.as_array()?;
        Some(Self {
            k: OpKind::parse(arr.first()?.as_str()?)?,
            a: arr.get(1)?.as_u64()? as u32,
            b: arr.get(2)?.as_u64()? as u32,
            c: arr.get(3)?.as_u64()? as u32,
            d: arr.get(4)?.as_u64()? as u32,
        })
    }
}

pub const N_OBJ_UUIDS: u32 = 3;
pub const N_SVC_UUIDS: u32 = 3;
pub const CAPACITIES: [u32; 9] = [0, 1, 3, 4, 5, 6, 16, u32::MAX - 1, u32::MAX];
pub const GRANTS: [u32; 7] = [0, 1, 2, 4, 5, 8, u32::MAX];

pub fn obj_uuid(i: u32) -> ObjectUuid {
    ObjectUuid(pool_uuid(1, (i % N_OBJ_UUIDS) as u64))
}

pub fn svc_uuid(i: u32) -> ServiceUuid {
    ServiceUuid(pool_uuid(2, (i % N_SVC_UUIDS) as u64))
}

/// The six filter shapes over the UUID pools.
pub fn filter(i: u32) -> BusListenerFilter {
    let o = obj_uuid(i / 6);
    let s = svc_uuid(i / 18);
    match i % 6 {
        0 => BusListenerFilter::Object(None),
        1 => BusListenerFilter::Object(Some(o)),
        2 => BusListenerFilter::Service(BusListenerServiceFilter {
            object: None,
            service: None,
        }),
        3 => BusListenerFilter::Service(BusListenerServiceFilter {
            object: Some(o),
            service: None,
        }),
        4 => BusListenerFilter::Service(BusListenerServiceFilter {
            object: None,
            service: Some(s),
        }),
        _ => BusListenerFilter::Service(BusListenerServiceFilter {
            object: Some(o),
            service: Some(s),
        }),
    }
}

/// Cookies and serials any actor has seen (foreign / stale pools).
#[derive(Debug, Default)]
pub struct Blackboard {
    pub objects: Vec<ObjectCookie>,
    pub services: Vec<ServiceCookie>,
    pub channels: Vec<ChannelCookie>,
    pub listeners: Vec<BusListenerCookie>,
    pub callee_serials: Vec<u32>,
    pub payload_ctr: u64,
    pub deep_payloads: u64,
    pub rich_payloads: u64,
}

pub type SharedBlackboard = Rc<RefCell<Blackboard>>;

#[derive(Debug, Clone)]
pub enum Pending {
    CreateObject,
    CreateService,
    CreateChannel(ChannelEndWithCapacity),
    CreateListener,
    Claim(ChannelCookie, ChannelEndWithCapacity),
    Other,
}

#[derive(Debug, Default)]
pub struct Known {
    pub objects: Vec<ObjectCookie>,
    pub services: Vec<ServiceCookie>,
    /// Channels this actor holds (or held) an end of: cookie, is-sender.
    pub channels: Vec<(ChannelCookie, bool)>,
    pub listeners: Vec<BusListenerCookie>,
    /// Calls received and not yet answered (callee serials), and answered ones (stale).
    pub inbound_calls: Vec<u32>,
    pub answered_calls: Vec<u32>,
    /// Caller serials used for calls.
    pub my_calls: Vec<u32>,
    /// Credit announced to this actor as a sender, per channel.
    pub credit: BTreeMap<ChannelCookie, u32>,
    pub pending: HashMap<u32, Pending>,
    pub next_serial: u32,
    pub subscribed_notifications: u32,
    /// Introspection queries received from the broker and not yet answered.
    pub inbound_intro_queries: Vec<u32>,
}

pub struct Resolver<'a> {
    pub actor: usize,
    pub version: ProtocolVersion,
    pub known: &'a mut Known,
    pub bb: &'a SharedBlackboard,
    pub allow_garbage: bool,
    pub conformant: bool,
    pub abuser: bool,
}

fn sel<T: Copy>(a: u32, own: &[T], global: &[T], never: impl Fn(u64) -> T) -> T {
    let idx = (a >> 2) as usize;
    match a & 3 {
        0 | 1 if !own.is_empty() => own[idx % own.len()],
        0..=2 if !global.is_empty() => global[idx % global.len()],
        _ => never((idx % 4) as u64),
    }
}

/// A payload value: element 0 carries a run-unique id so that every delivery is attributable;
/// the rest exercises the container encodings.
pub fn payload_value(unique: u64, shape: u32) -> Value {
    let id = Value::U64(unique);
    match shape % 8 {
        0 => id,
        1 => Value::Vec(vec![id, Value::U32(7), Value::String("x".into())]),
        2 => Value::Vec(vec![id, Value::Bytes(Bytes::new(vec![1u8, 2, 3, 0xff]))]),
        3 => {
            let mut m = HashMap::new();
            m.insert("id".to_string(), id);
            m.insert("k".to_string(), Value::Vec(vec![Value::None, Value::Bool(true)]));
            Value::StringMap(m)
        }
        4 => {
            let mut f = HashMap::new();
            f.insert(0u32, id);
            f.insert(1u32, Value::U8Set(HashSet::from([1u8, 2, 200])));
            f.insert(
                5u32,
                Value::Vec(vec![Value::Vec(vec![]), Value::I64(-1), Value::F64(1.5)]),
            );
            Value::Struct(Struct(f))
        }
        5 => Value::Some(Box::new(Value::Enum(Box::new(Enum::new(3, id))))),
        6 => {
            let mut m = HashMap::new();
            m.insert(Uuid::from_u128(1), id);
            m.insert(Uuid::from_u128(2), Value::StringSet(HashSet::from(["a".to_string()])));
            Value::UuidMap(m)
        }
        _ => {
            let mut m = HashMap::new();
            m.insert(-5i32, id);
            m.insert(70000i32, Value::Vec(vec![Value::U16(300); 3]));
            Value::I32Map(m)
        }
    }
}

/// A byte string serialized in several segments (only the 1.20 encoding can express that).
struct SegBytes<'a>(&'a [Vec<u8>]);

impl aldrin_core::tags::PrimaryTag for SegBytes<'_> {
    type Tag = aldrin_core::tags::Bytes;
}

impl aldrin_core::Serialize<aldrin_core::tags::Bytes> for SegBytes<'_> {
    fn serialize(self, serializer: aldrin_core::Serializer) -> Result<(), aldrin_core::SerializeError> {
        let mut s = serializer.serialize_bytes2()?;
        for seg in self.0 {
            s.serialize(seg)?;
        }
        s.finish()
    }
}

/// Payload whose value is a multi-segment byte string starting with the unique id.
pub fn segmented_payload(version: ProtocolVersion, unique: u64, shape: u32) -> SerializedValue {
    let segs: Vec<Vec<u8>> = match (shape / 10) % 3 {
        0 => vec![unique.to_le_bytes().to_vec(), vec![1, 2, 3]],
        1 => vec![unique.to_le_bytes()[..3].to_vec(), unique.to_le_bytes()[3..].to_vec(), vec![], vec![9; 70]],
        _ => vec![vec![], unique.to_le_bytes().to_vec(), vec![0xff]],
    };
    let mut sv = SerializedValue::serialize(SegBytes(&segs)).expect("segmented bytes serialize");
    sv.convert(None, version).expect("payload converts");
    sv
}

/// A random value tree drawn from *all* value kinds (every integer width, floats, ids, every map and
/// set key type, struct, enum, channel ends), derived from `unique` alone. `Value` serializes its
/// containers in the 1.20 forms, so forwarding such a payload to an older peer runs the converter
/// for each of those kinds.
pub fn rich_value(unique: u64, shape: u32) -> Value {
    fn key_u(rng: &mut crate::rng::Rng) -> u64 {
        *rng.pick(&[0u64, 1, 127, 128, 255, 256, 65535, 65536, u32::MAX as u64, u64::MAX, 300, 70000])
    }
    fn leaf(rng: &mut crate::rng::Rng) -> Value {
        let u = key_u(rng);
        match rng.below(19) {
            0 => Value::None,
            1 => Value::Bool(u & 1 == 1),
            2 => Value::U8(u as u8),
            3 => Value::I8(u as i8),
            4 => Value::U16(u as u16),
            5 => Value::I16(u as i16),
            6 => Value::U32(u as u32),
            7 => Value::I32(u as i32),
            8 => Value::U64(u),
            9 => Value::I64(u as i64),
            10 => Value::F32(*rng.pick(&[0.0f32, -1.5, 3.25e10, f32::MIN_POSITIVE, f32::INFINITY])),
            11 => Value::F64(*rng.pick(&[0.0f64, -2.5, 1e300, f64::EPSILON, f64::NEG_INFINITY])),
            12 => Value::String(rng.pick(&["", "a", "äöü€", "a longer string with spaces"]).to_string()),
            13 => Value::Uuid(Uuid::from_u128(u as u128 * 0x1_0000_0001)),
            14 => Value::ObjectId(aldrin_core::ObjectId::new(
                aldrin_core::ObjectUuid(Uuid::from_u128(u as u128 + 1)),
                ObjectCookie(Uuid::from_u128(u as u128 + 2)),
            )),
            15 => Value::ServiceId(aldrin_core::ServiceId::new(
                aldrin_core::ObjectId::new(aldrin_core::ObjectUuid(Uuid::from_u128(u as u128 + 3)), ObjectCookie(Uuid::from_u128(4))),
                aldrin_core::ServiceUuid(Uuid::from_u128(u as u128 + 5)),
                ServiceCookie(Uuid::from_u128(6)),
            )),
            16 => Value::Sender(ChannelCookie(Uuid::from_u128(u as u128 + 7))),
            17 => Value::Receiver(ChannelCookie(Uuid::from_u128(u as u128 + 8))),
            _ => Value::Bytes(Bytes::new((0..rng.below(40)).map(|i| (i * 7) as u8).collect::<Vec<u8>>())),
        }
    }
    fn node(rng: &mut crate::rng::Rng, depth: u32, budget: &mut u32) -> Value {
        // An explicit `None` as an element / field / map value more often than the leaf
        // distribution alone gives it (absent and `None` are different things).
        if depth < 4 && rng.chance(1, 6) {
            return Value::None;
        }
        if depth == 0 || *budget == 0 || rng.chance(1, 3) {
            return leaf(rng);
        }
        *budget -= 1;
        let n = rng.below(4);
        macro_rules! map {
            ($variant:ident, $t:ty) => {{
                let mut m = HashMap::new();
                for _ in 0..n {
                    m.insert(key_u(rng) as $t, node(rng, depth - 1, budget));
                }
                Value::$variant(m)
            }};
        }
        macro_rules! set {
            ($variant:ident, $t:ty) => {{
                let mut m = HashSet::new();
                for _ in 0..n {
                    m.insert(key_u(rng) as $t);
                }
                Value::$variant(m)
            }};
        }
        match rng.below(26) {
            0 => Value::Some(Box::new(node(rng, depth - 1, budget))),
            1 => Value::Vec((0..n).map(|_| node(rng, depth - 1, budget)).collect()),
            2 => map!(U8Map, u8),
            3 => map!(I8Map, i8),
            4 => map!(U16Map, u16),
            5 => map!(I16Map, i16),
            6 => map!(U32Map, u32),
            7 => map!(I32Map, i32),
            8 => map!(U64Map, u64),
            9 => map!(I64Map, i64),
            10 => {
                let mut m = HashMap::new();
                for i in 0..n {
                    m.insert(format!("k{i}{}", key_u(rng)), node(rng, depth - 1, budget));
                }
                Value::StringMap(m)
            }
            11 => {
                let mut m = HashMap::new();
                for _ in 0..n {
                    m.insert(Uuid::from_u128(key_u(rng) as u128 + 9), node(rng, depth - 1, budget));
                }
                Value::UuidMap(m)
            }
            12 => set!(U8Set, u8),
            13 => set!(I8Set, i8),
            14 => set!(U16Set, u16),
            15 => set!(I16Set, i16),
            16 => set!(U32Set, u32),
            17 => set!(I32Set, i32),
            18 => set!(U64Set, u64),
            19 => set!(I64Set, i64),
            20 => {
                let mut m = HashSet::new();
                for i in 0..n {
                    m.insert(format!("s{i}"));
                }
                Value::StringSet(m)
            }
            21 => {
                let mut m = HashSet::new();
                for _ in 0..n {
                    m.insert(Uuid::from_u128(key_u(rng) as u128 + 10));
                }
                Value::UuidSet(m)
            }
            22 | 23 => {
                let mut f = HashMap::new();
                for _ in 0..n {
                    f.insert(key_u(rng) as u32, node(rng, depth - 1, budget));
                }
                Value::Struct(Struct(f))
            }
            _ => Value::Enum(Box::new(Enum::new(key_u(rng) as u32, node(rng, depth - 1, budget)))),
        }
    }
    let mut rng = crate::rng::Rng::new(unique ^ ((shape as u64) << 48) ^ 0x7269_6368);
    let mut budget = 10;
    let tree = node(&mut rng, 4, &mut budget);
    Value::Vec(vec![Value::U64(unique), tree])
}

/// A well-formed value nested as deeply as the serializer accepts (the limit is found by trial, so
/// the harness does not restate the repository's constant): `Some(Some(..(leaf)))` or nested
/// one-element vectors, optionally one level short of the limit.
pub fn deep_value(unique: u64, variant: u32) -> Value {
    let wrap = |v: Value, vecs: bool| {
        if vecs {
            Value::Vec(vec![v])
        } else {
            Value::Some(Box::new(v))
        }
    };
    let build = |k: u32| {
        let mut v = if variant & 2 == 0 {
            Value::U64(unique)
        } else {
            Value::Vec(vec![Value::U64(unique), Value::U8(1)])
        };
        for i in 0..k {
            v = wrap(v, variant & 4 != 0 && i % 2 == 0);
        }
        v
    };
    let mut k = 40;
    while k > 0 && SerializedValue::serialize(build(k)).is_err() {
        k -= 1;
    }
    if variant & 1 == 1 && k > 0 {
        k -= 1;
    }
    build(k)
}

/// Serializes in the epoch a peer of `version` produces; `None` when the repository's converter
/// refuses the value.
pub fn try_encode_for(version: ProtocolVersion, value: &Value) -> Option<SerializedValue> {
    let mut sv = SerializedValue::serialize(value).ok()?;
    sv.convert(None, version).ok()?;
    Some(sv)
}

/// Serializes in the epoch a peer of `version` produces.
pub fn encode_for(version: ProtocolVersion, value: &Value) -> SerializedValue {
    let mut sv = SerializedValue::serialize(value).expect("payload serializes");
    sv.convert(None, version).expect("payload converts");
    sv
}

/// Bytes that are not a well-formed value: a valid value whose leading kind tag is replaced by an
/// unknown one. Built as a raw frame and parsed back; the message parser does not look inside values.
pub fn garbage_value(unique: u64) -> SerializedValue {
    let good = SerializedValue::serialize(Value::Vec(vec![Value::U64(unique), Value::U8(1)]))
        .expect("serialize");
    let msg = Message::EmitEvent(EmitEvent {
        service_cookie: ServiceCookie::NIL,
        event: 0,
        value: good,
    });
    let mut frame = msg.serialize_message().expect("serialize");
    // Frame layout: length (4), kind (1), value length (4), value, remaining fields.
    frame[9] = 0xee;
    match Message::deserialize_message(frame) {
        Ok(Message::EmitEvent(ev)) => ev.value,
        _ => panic!("sim: cannot build garbage payload"),
    }
}

impl Resolver<'_> {
    fn serial(&mut self, p: Pending) -> u32 {
        let s = self.known.next_serial;
        self.known.next_serial += 1;
        self.known.pending.insert(s, p);
        s
    }

    fn payload(&mut self, shape: u32) -> SerializedValue {
        let unique = {
            let mut bb = self.bb.borrow_mut();
            bb.payload_ctr += 1;
            ((self.actor as u64) << 40) | bb.payload_ctr
        };
        if self.allow_garbage && shape % 16 == 15 {
            return garbage_value(unique);
        }
        if shape % 9 == 8 {
            return segmented_payload(self.version, unique, shape);
        }
        if shape % 5 == 4 {
            if let Some(sv) = try_encode_for(self.version, &rich_value(unique, shape)) {
                self.bb.borrow_mut().rich_payloads += 1;
                return sv;
            }
        }
        if shape % 11 == 10 {
            // Nesting at (or one short of) the depth limit. A pre-1.20 actor whose own encoder
            // refuses it sends a flat value instead (the cross-epoch direction is what counts).
            if let Some(sv) = try_encode_for(self.version, &deep_value(unique, shape / 11)) {
                self.bb.borrow_mut().deep_payloads += 1;
                return sv;
            }
        }
        encode_for(self.version, &payload_value(unique, shape))
    }

    fn obj(&self, a: u32) -> ObjectCookie {
        sel(a, &self.known.objects, &self.bb.borrow().objects, |n| {
            ObjectCookie(never_issued_uuid(n))
        })
    }

    fn svc(&self, a: u32) -> ServiceCookie {
        sel(a, &self.known.services, &self.bb.borrow().services, |n| {
            ServiceCookie(never_issued_uuid(100 + n))
        })
    }

    /// Any service cookie seen on the bus (callers, subscribers and strangers address services of
    /// other connections).
    fn any_svc(&self, a: u32) -> ServiceCookie {
        let bb = self.bb.borrow();
        let idx = (a >> 2) as usize;
        match a & 3 {
            0..=2 if !bb.services.is_empty() => bb.services[idx % bb.services.len()],
            _ => ServiceCookie(never_issued_uuid(100 + (idx % 4) as u64)),
        }
    }

    fn chan(&self, a: u32) -> ChannelCookie {
        let own: Vec<_> = self.known.channels.iter().map(|c| c.0).collect();
        sel(a, &own, &self.bb.borrow().channels, |n| {
            ChannelCookie(never_issued_uuid(200 + n))
        })
    }

    fn any_chan(&self, a: u32) -> ChannelCookie {
        let bb = self.bb.borrow();
        let idx = (a >> 2) as usize;
        match a & 3 {
            0..=2 if !bb.channels.is_empty() => bb.channels[idx % bb.channels.len()],
            _ => ChannelCookie(never_issued_uuid(200 + (idx % 4) as u64)),
        }
    }

    fn listener(&self, a: u32) -> BusListenerCookie {
        sel(a, &self.known.listeners, &self.bb.borrow().listeners, |n| {
            BusListenerCookie(never_issued_uuid(300 + n))
        })
    }

    /// Resolves an abstract operation into the message to send now.
    pub fn resolve(&mut self, op: Op) -> Message {
        let v = self.version;
        if self.conformant && crate::gen::op_min_minor(op.k) > v.minor() {
            let serial = self.serial(Pending::Other);
            return Sync { serial }.into();
        }
        match op.k {
            OpKind::CreateObject => {
                let serial = self.serial(Pending::CreateObject);
                CreateObject {
                    serial,
                    uuid: obj_uuid(op.a),
                }
                .into()
            }
            OpKind::DestroyObject => {
                let cookie = self.obj(op.a);
                let serial = self.serial(Pending::Other);
                self.known.objects.retain(|c| *c != cookie);
                DestroyObject { serial, cookie }.into()
            }
            OpKind::CreateService => {
                let object_cookie = self.obj(op.a);
                let serial = self.serial(Pending::CreateService);
                let uuid = svc_uuid(op.b);
                // d bit0: use CreateService2 when the protocol allows it (bit1: even if not).
                let use2 = (op.d & 1 == 1 && v >= ProtocolVersion::V1_17) || op.d & 6 == 6;
                if use2 {
                    let mut info = ServiceInfo::new(op.c % 4);
                    match (op.d >> 3) % 3 {
                        0 => {}
                        1 => info = info.set_subscribe_all(true),
                        _ => info = info.set_subscribe_all(false),
                    }
                    if (op.d >> 5) & 1 == 1 {
                        info = info.set_type_id(TypeId(pool_uuid(3, 1)));
                    }
                    let value = if (op.d >> 9) & 1 == 1 {
                        encode_for(v, &Value::String("not a service info".into()))
                    } else {
                        let mut sv = SerializedValue::serialize(info).expect("info");
                        sv.convert(None, v).expect("convert");
                        sv
                    };
                    CreateService2 {
                        serial,
                        object_cookie,
                        uuid,
                        value,
                    }
                    .into()
                } else {
                    CreateService {
                        serial,
                        object_cookie,
                        uuid,
                        version: op.c % 4,
                    }
                    .into()
                }
            }
            OpKind::DestroyService => {
                let cookie = self.svc(op.a);
                let serial = self.serial(Pending::Other);
                self.known.services.retain(|c| *c != cookie);
                DestroyService { serial, cookie }.into()
            }
            OpKind::QueryVersion => {
                let cookie = self.any_svc(op.a);
                let serial = self.serial(Pending::Other);
                QueryServiceVersion { serial, cookie }.into()
            }
            OpKind::QueryInfo => {
                let cookie = self.any_svc(op.a);
                let serial = self.serial(Pending::Other);
                QueryServiceInfo { serial, cookie }.into()
            }
            OpKind::Call => {
                let service_cookie = self.any_svc(op.a);
                // Caller serials from a pool of three, so that reuse after completion is frequent
                // and duplicate-while-pending happens occasionally.
                let mut serial = 1_000_000 + (op.b % 3);
                let reuse = !self.conformant && op.d & 0x100 != 0;
                if !reuse {
                    for _ in 0..3 {
                        if !self.known.my_calls.contains(&serial) {
                            break;
                        }
                        serial = 1_000_000 + (serial - 1_000_000 + 1) % 3;
                    }
                    if self.known.my_calls.contains(&serial) {
                        serial = 2_000_000 + self.known.next_serial;
                        self.known.next_serial += 1;
                    }
                }
                self.known.my_calls.push(serial);
                let value = self.payload(op.c);
                let use2 = (op.d & 1 == 1 && v >= ProtocolVersion::V1_19) || op.d & 6 == 6;
                if use2 {
                    CallFunction2 {
                        serial,
                        service_cookie,
                        function: op.c % 5,
                        version: if op.d & 8 == 8 { Some(op.c % 3) } else { None },
                        value,
                    }
                    .into()
                } else {
                    CallFunction {
                        serial,
                        service_cookie,
                        function: op.c % 5,
                        value,
                    }
                    .into()
                }
            }
            OpKind::Reply => {
                let idx = (op.a >> 2) as usize;
                let serial = match op.a & 3 {
                    0 | 1 if !self.known.inbound_calls.is_empty() => {
                        let i = idx % self.known.inbound_calls.len();
                        let s = self.known.inbound_calls.remove(i);
                        self.known.answered_calls.push(s);
                        s
                    }
                    0..=2 if !self.known.answered_calls.is_empty() => {
                        self.known.answered_calls[idx % self.known.answered_calls.len()]
                    }
                    _ => {
                        let bb = self.bb.borrow();
                        if bb.callee_serials.is_empty() {
                            4_000_000 + idx as u32 % 4
                        } else {
                            bb.callee_serials[idx % bb.callee_serials.len()]
                        }
                    }
                };
                let result = match op.b % 6 {
                    0 | 1 => CallFunctionResult::Ok(self.payload(op.c)),
                    2 => CallFunctionResult::Err(self.payload(op.c)),
                    3 => CallFunctionResult::Aborted,
                    4 => CallFunctionResult::InvalidFunction,
                    _ => CallFunctionResult::InvalidArgs,
                };
                CallFunctionReply { serial, result }.into()
            }
            OpKind::Abort => {
                let idx = (op.a >> 2) as usize;
                let serial = if op.a & 3 != 3 && !self.known.my_calls.is_empty() {
                    self.known.my_calls[idx % self.known.my_calls.len()]
                } else {
                    1_000_000 + (idx as u32 % 4)
                };
                AbortFunctionCall { serial }.into()
            }
            OpKind::SubscribeEvent => {
                let service_cookie = self.any_svc(op.a);
                let serial = if op.d & 0x400 != 0 {
                    None
                } else {
                    Some(self.serial(Pending::Other))
                };
                SubscribeEvent {
                    serial,
                    service_cookie,
                    event: op.b % 3,
                }
                .into()
            }
            OpKind::UnsubscribeEvent => UnsubscribeEvent {
                service_cookie: self.any_svc(op.a),
                event: op.b % 3,
            }
            .into(),
            OpKind::SubscribeAll => {
                let service_cookie = self.any_svc(op.a);
                let serial = if op.d & 0x400 != 0 {
                    None
                } else {
                    Some(self.serial(Pending::Other))
                };
                SubscribeAllEvents {
                    serial,
                    service_cookie,
                }
                .into()
            }
            OpKind::UnsubscribeAll => {
                let service_cookie = self.any_svc(op.a);
                let serial = if op.c % 2 == 1 {
                    None
                } else {
                    Some(self.serial(Pending::Other))
                };
                UnsubscribeAllEvents {
                    serial,
                    service_cookie,
                }
                .into()
            }
            OpKind::SubscribeService => {
                let service_cookie = self.any_svc(op.a);
                let serial = self.serial(Pending::Other);
                SubscribeService {
                    serial,
                    service_cookie,
                }
                .into()
            }
            OpKind::UnsubscribeService => UnsubscribeService {
                service_cookie: self.any_svc(op.a),
            }
            .into(),
            OpKind::EmitEvent => {
                let service_cookie = self.svc(op.a);
                let value = self.payload(op.c);
                EmitEvent {
                    service_cookie,
                    event: op.b % 3,
                    value,
                }
                .into()
            }
            OpKind::CreateChannel => {
                let end = if op.a % 2 == 0 {
                    ChannelEndWithCapacity::Sender
                } else {
                    ChannelEndWithCapacity::Receiver(CAPACITIES[op.b as usize % CAPACITIES.len()])
                };
                let serial = self.serial(Pending::CreateChannel(end));
                CreateChannel { serial, end }.into()
            }
            OpKind::ClaimChannelEnd => {
                let cookie = self.any_chan(op.a);
                let end = if op.b % 2 == 0 {
                    ChannelEndWithCapacity::Sender
                } else {
                    ChannelEndWithCapacity::Receiver(CAPACITIES[op.c as usize % CAPACITIES.len()])
                };
                let serial = self.serial(Pending::Claim(cookie, end));
                ClaimChannelEnd {
                    serial,
                    cookie,
                    end,
                }
                .into()
            }
            OpKind::CloseChannelEnd => {
                let cookie = if op.c % 4 == 0 {
                    self.any_chan(op.a)
                } else {
                    self.chan(op.a)
                };
                let own_role = self
                    .known
                    .channels
                    .iter()
                    .find(|c| c.0 == cookie)
                    .map(|c| c.1);
                let end = match (own_role, op.b % 4) {
                    (Some(true), 0..=2) | (None, 0 | 1) | (Some(false), 3) => ChannelEnd::Sender,
                    _ => ChannelEnd::Receiver,
                };
                let serial = self.serial(Pending::Other);
                CloseChannelEnd {
                    serial,
                    cookie,
                    end,
                }
                .into()
            }
            OpKind::SendItem => {
                // Prefer a channel on which this actor holds the sender and (unless told to overrun
                // on purpose, b % 8 == 7) has credit left.
                let overrun = op.b % 8 == 7;
                let senders: Vec<_> = self
                    .known
                    .channels
                    .iter()
                    .filter(|c| c.1)
                    .map(|c| c.0)
                    .filter(|c| overrun || self.known.credit.get(c).copied().unwrap_or(0) > 0)
                    .collect();
                let cookie = if !senders.is_empty() && op.a & 3 != 3 {
                    senders[(op.a >> 2) as usize % senders.len()]
                } else {
                    self.chan(op.a)
                };
                if let Some(c) = self.known.credit.get_mut(&cookie) {
                    *c = c.saturating_sub(1);
                }
                let value = self.payload(op.c);
                SendItem { cookie, value }.into()
            }
            OpKind::AddCapacity => {
                let receivers: Vec<_> = self
                    .known
                    .channels
                    .iter()
                    .filter(|c| !c.1)
                    .map(|c| c.0)
                    .collect();
                let cookie = if !receivers.is_empty() && op.a & 3 != 3 {
                    receivers[(op.a >> 2) as usize % receivers.len()]
                } else {
                    self.chan(op.a)
                };
                AddChannelCapacity {
                    cookie,
                    capacity: GRANTS[op.b as usize % GRANTS.len()],
                }
                .into()
            }
            OpKind::Sync => {
                let serial = self.serial(Pending::Other);
                Sync { serial }.into()
            }
            OpKind::CreateListener => {
                let serial = self.serial(Pending::CreateListener);
                CreateBusListener { serial }.into()
            }
            OpKind::DestroyListener => {
                let cookie = self.listener(op.a);
                let serial = self.serial(Pending::Other);
                self.known.listeners.retain(|c| *c != cookie);
                DestroyBusListener { serial, cookie }.into()
            }
            OpKind::AddFilter => AddBusListenerFilter {
                cookie: self.listener(op.a),
                filter: filter(op.b),
            }
            .into(),
            OpKind::RemoveFilter => RemoveBusListenerFilter {
                cookie: self.listener(op.a),
                filter: filter(op.b),
            }
            .into(),
            OpKind::ClearFilters => ClearBusListenerFilters {
                cookie: self.listener(op.a),
            }
            .into(),
            OpKind::StartListener => {
                let cookie = self.listener(op.a);
                let serial = self.serial(Pending::Other);
                let scope = match op.b % 3 {
                    0 => BusListenerScope::Current,
                    1 => BusListenerScope::New,
                    _ => BusListenerScope::All,
                };
                StartBusListener {
                    serial,
                    cookie,
                    scope,
                }
                .into()
            }
            OpKind::StopListener => {
                let cookie = self.listener(op.a);
                let serial = self.serial(Pending::Other);
                StopBusListener { serial, cookie }.into()
            }
            OpKind::RegisterIntrospection => {
                let mut ids: HashSet<Uuid> = HashSet::new();
                for i in 0..3u32 {
                    if (op.a >> i) & 1 == 1 || i == op.b % 3 {
                        ids.insert(pool_uuid(3, i as u64));
                    }
                }
                RegisterIntrospection {
                    value: encode_for(v, &Value::UuidSet(ids)),
                }
                .into()
            }
            OpKind::QueryIntrospection => {
                let serial = self.serial(Pending::Other);
                QueryIntrospection {
                    serial,
                    type_id: TypeId(pool_uuid(3, (op.a % 4) as u64)),
                }
                .into()
            }
            OpKind::QueryIntrospectionReply => {
                // An abuser answers queries nobody asked it (with small serials, which are the ones
                // the broker has in flight to others) once in four times, others hardly ever.
                let unsolicited = if self.abuser { op.c % 4 == 3 } else { op.c % 64 == 63 };
                if self.known.inbound_intro_queries.is_empty() && (self.conformant || !unsolicited) {
                    // Nothing to answer (an unsolicited reply closes the connection; keep that rare).
                    let serial = self.serial(Pending::Other);
                    return Sync { serial }.into();
                }
                let serial = if self.known.inbound_intro_queries.is_empty() {
                    op.a % 4
                } else {
                    let i = (op.a >> 2) as usize % self.known.inbound_intro_queries.len();
                    self.known.inbound_intro_queries.remove(i)
                };
                let result = if op.b % 3 == 0 {
                    QueryIntrospectionResult::Unavailable
                } else {
                    QueryIntrospectionResult::Ok(self.payload(op.c & !0xf))
                };
                QueryIntrospectionReply { serial, result }.into()
            }
            OpKind::Raw => self.raw(op),
            _ => unreachable!("not a message op"),
        }
    }

    /// Messages a client must never send (wrong direction), with plausible field values.
    fn raw(&mut self, op: Op) -> Message {
        let serial = op.b % 8;
        match op.a % 30 {
            0 => Connect {
                version: 14,
                value: encode_for(self.version, &Value::None),
            }
            .into(),
            1 => ConnectReply::Ok(encode_for(self.version, &Value::None)).into(),
            2 => CreateObjectReply {
                serial,
                result: CreateObjectResult::Ok(self.obj(op.c)),
            }
            .into(),
            3 => DestroyObjectReply {
                serial,
                result: DestroyObjectResult::Ok,
            }
            .into(),
            4 => CreateServiceReply {
                serial,
                result: CreateServiceResult::Ok(self.svc(op.c)),
            }
            .into(),
            5 => DestroyServiceReply {
                serial,
                result: DestroyServiceResult::InvalidService,
            }
            .into(),
            6 => SubscribeEventReply {
                serial,
                result: SubscribeEventResult::Ok,
            }
            .into(),
            7 => QueryServiceVersionReply {
                serial,
                result: QueryServiceVersionResult::Ok(1),
            }
            .into(),
            8 => CreateChannelReply {
                serial,
                cookie: self.chan(op.c),
            }
            .into(),
            9 => CloseChannelEndReply {
                serial,
                result: CloseChannelEndResult::Ok,
            }
            .into(),
            10 => ChannelEndClosed {
                cookie: self.chan(op.c),
                end: ChannelEnd::Sender,
            }
            .into(),
            11 => ClaimChannelEndReply {
                serial,
                result: ClaimChannelEndResult::SenderClaimed(4),
            }
            .into(),
            12 => ChannelEndClaimed {
                cookie: self.chan(op.c),
                end: ChannelEndWithCapacity::Receiver(3),
            }
            .into(),
            13 => {
                let value = self.payload(op.d);
                ItemReceived {
                    cookie: self.chan(op.c),
                    value,
                }
                .into()
            }
            14 => SyncReply { serial }.into(),
            15 => ServiceDestroyed {
                service_cookie: self.svc(op.c),
            }
            .into(),
            16 => CreateBusListenerReply {
                serial,
                cookie: self.listener(op.c),
            }
            .into(),
            17 => DestroyBusListenerReply {
                serial,
                result: DestroyBusListenerResult::Ok,
            }
            .into(),
            18 => StartBusListenerReply {
                serial,
                result: StartBusListenerResult::Ok,
            }
            .into(),
            19 => StopBusListenerReply {
                serial,
                result: StopBusListenerResult::Ok,
            }
            .into(),
            20 => BusListenerCurrentFinished {
                cookie: self.listener(op.c),
            }
            .into(),
            21 => Connect2 {
                major_version: 1,
                minor_version: 20,
                value: SerializedValue::serialize(ConnectData::new()).expect("serialize"),
            }
            .into(),
            22 => ConnectReply2 {
                result: ConnectResult::Ok(20),
                value: SerializedValue::serialize(ConnectReplyData::new()).expect("serialize"),
            }
            .into(),
            23 => QueryServiceInfoReply {
                serial,
                result: QueryServiceInfoResult::InvalidService,
            }
            .into(),
            24 => SubscribeServiceReply {
                serial,
                result: SubscribeServiceResult::Ok,
            }
            .into(),
            25 => SubscribeAllEventsReply {
                serial,
                result: SubscribeAllEventsResult::Ok,
            }
            .into(),
            26 => UnsubscribeAllEventsReply {
                serial,
                result: UnsubscribeAllEventsResult::Ok,
            }
            .into(),
            27 => EmitBusEvent {
                cookie: None,
                event: aldrin_core::BusEvent::ObjectCreated(aldrin_core::ObjectId::new(
                    obj_uuid(op.c),
                    self.obj(op.c),
                )),
            }
            .into(),
            28 => QueryIntrospectionReply {
                serial,
                result: QueryIntrospectionResult::Ok(encode_for(self.version, &Value::None)),
            }
            .into(),
            _ => QueryIntrospectionReply {
                serial,
                result: QueryIntrospectionResult::Unavailable,
            }
            .into(),
        }
    }
}

/// Serial of the request a reply answers.
pub fn reply_serial(msg: &Message) -> Option<u32> {
    Some(match msg {
        Message::CreateObjectReply(r) => r.serial,
        Message::DestroyObjectReply(r) => r.serial,
        Message::CreateServiceReply(r) => r.serial,
        Message::DestroyServiceReply(r) => r.serial,
        Message::SubscribeEventReply(r) => r.serial,
        Message::QueryServiceVersionReply(r) => r.serial,
        Message::CreateChannelReply(r) => r.serial,
        Message::CloseChannelEndReply(r) => r.serial,
        Message::ClaimChannelEndReply(r) => r.serial,
        Message::SyncReply(r) => r.serial,
        Message::CreateBusListenerReply(r) => r.serial,
        Message::DestroyBusListenerReply(r) => r.serial,
        Message::StartBusListenerReply(r) => r.serial,
        Message::StopBusListenerReply(r) => r.serial,
        Message::QueryIntrospectionReply(r) => r.serial,
        Message::QueryServiceInfoReply(r) => r.serial,
        Message::SubscribeServiceReply(r) => r.serial,
        Message::SubscribeAllEventsReply(r) => r.serial,
        Message::UnsubscribeAllEventsReply(r) => r.serial,
        _ => return None,
    })
}

impl Known {
    /// Updates the actor's knowledge from a message it received.
    pub fn observe(&mut self, msg: &Message, bb: &SharedBlackboard) {
        let mut bb = bb.borrow_mut();
        if let Some(serial) = reply_serial(msg) {
            if matches!(self.pending.get(&serial), Some(Pending::Other)) {
                self.pending.remove(&serial);
            }
        }
        match msg {
            Message::CreateObjectReply(r) => {
                self.pending.remove(&r.serial);
                if let CreateObjectResult::Ok(c) = r.result {
                    self.objects.push(c);
                    bb.objects.push(c);
                }
            }
            Message::CreateServiceReply(r) => {
                self.pending.remove(&r.serial);
                if let CreateServiceResult::Ok(c) = r.result {
                    self.services.push(c);
                    bb.services.push(c);
                }
            }
            Message::CreateChannelReply(r) => {
                if let Some(Pending::CreateChannel(end)) = self.pending.remove(&r.serial) {
                    let is_sender = matches!(end, ChannelEndWithCapacity::Sender);
                    self.channels.push((r.cookie, is_sender));
                    bb.channels.push(r.cookie);
                }
            }
            Message::ClaimChannelEndReply(r) => {
                if let Some(Pending::Claim(cookie, _)) = self.pending.remove(&r.serial) {
                    match r.result {
                        ClaimChannelEndResult::SenderClaimed(cap) => {
                            self.channels.push((cookie, true));
                            self.credit.insert(cookie, cap);
                        }
                        ClaimChannelEndResult::ReceiverClaimed => {
                            self.channels.push((cookie, false));
                        }
                        _ => {}
                    }
                }
            }
            Message::ChannelEndClaimed(m) => {
                if let ChannelEndWithCapacity::Receiver(cap) = m.end {
                    self.credit.insert(m.cookie, cap);
                }
            }
            Message::AddChannelCapacity(m) => {
                let c = self.credit.entry(m.cookie).or_insert(0);
                *c = c.saturating_add(m.capacity);
            }
            Message::CreateBusListenerReply(r) => {
                self.pending.remove(&r.serial);
                self.listeners.push(r.cookie);
                bb.listeners.push(r.cookie);
            }
            Message::CallFunction(m) => {
                self.inbound_calls.push(m.serial);
                bb.callee_serials.push(m.serial);
            }
            Message::CallFunction2(m) => {
                self.inbound_calls.push(m.serial);
                bb.callee_serials.push(m.serial);
            }
            Message::CallFunctionReply(r) => {
                if let Some(i) = self.my_calls.iter().position(|s| *s == r.serial) {
                    self.my_calls.remove(i);
                }
            }
            Message::ServiceDestroyed(m) => {
                self.services.retain(|c| *c != m.service_cookie);
            }
            Message::SubscribeEvent(_) | Message::SubscribeAllEvents(_) => {
                self.subscribed_notifications += 1;
            }
            Message::QueryIntrospection(q) => self.inbound_intro_queries.push(q.serial),
            _ => {}
        }
    }
}
