//! Level B: the client's introspection API (`register_introspection`, `submit_introspection`,
//! `query_introspection`). Three harness types, one of which references another, so that the
//! client's reference worklist runs.

use crate::api_app::{blocked, AOp, Ctx, TaskInfo};
use crate::model::Prop;
use aldrin::Handle;
use aldrin_core::introspection::{ir, DynIntrospectable, Introspectable, Introspection, LexicalId, References};
use aldrin_core::TypeId;

pub struct T0;
pub struct T1;
pub struct T2;

impl Introspectable for T0 {
    fn layout() -> ir::LayoutIr {
        ir::StructIr::builder("sim", "T0")
            .field(ir::FieldIr::builder(1, "a", true, u32::lexical_id()).finish())
            .finish()
            .into()
    }

    fn lexical_id() -> LexicalId {
        LexicalId::custom("sim", "T0")
    }

    fn add_references(references: &mut References) {
        references.add::<u32>();
    }
}

impl Introspectable for T1 {
    fn layout() -> ir::LayoutIr {
        ir::StructIr::builder("sim", "T1")
            .field(ir::FieldIr::builder(1, "x", false, String::lexical_id()).finish())
            .field(ir::FieldIr::builder(2, "t0", true, T0::lexical_id()).finish())
            .fallback(ir::StructFallbackIr::builder("rest").finish())
            .finish()
            .into()
    }

    fn lexical_id() -> LexicalId {
        LexicalId::custom("sim", "T1")
    }

    fn add_references(references: &mut References) {
        references.extend([DynIntrospectable::new::<String>(), DynIntrospectable::new::<T0>()]);
    }
}

impl Introspectable for T2 {
    fn layout() -> ir::LayoutIr {
        ir::EnumIr::builder("sim", "T2")
            .variant(ir::VariantIr::builder(0, "A").variant_type(u8::lexical_id()).finish())
            .variant(ir::VariantIr::builder(1, "B").finish())
            .finish()
            .into()
    }

    fn lexical_id() -> LexicalId {
        LexicalId::custom("sim", "T2")
    }

    fn add_references(references: &mut References) {
        references.add::<u8>();
    }
}

fn type_id(i: u32) -> TypeId {
    match i {
        0 => TypeId::compute::<T0>(),
        1 => TypeId::compute::<T1>(),
        2 => TypeId::compute::<T2>(),
        // Nobody ever registers this one.
        _ => TypeId(crate::entropy::pool_uuid(3, 7)),
    }
}

fn expected(i: u32) -> Introspection {
    match i {
        0 => Introspection::new::<T0>(),
        1 => Introspection::new::<T1>(),
        _ => Introspection::new::<T2>(),
    }
}

/// Harness types that become available when type `i` is registered.
fn closure(i: u32) -> &'static [u32] {
    match i {
        0 => &[0],
        1 => &[1, 0],
        _ => &[2],
    }
}

fn stable_registrants(ctx: &Ctx, i: u32) -> std::collections::BTreeSet<usize> {
    if ctx.stopping.get() {
        return Default::default();
    }
    let peers = ctx.peers.borrow();
    ctx.bb
        .borrow()
        .intro_registrants
        .get(&i)
        .map(|s| s.iter().copied().filter(|c| peers.get(*c).is_some_and(|p| !p.client_faulted.get())).collect())
        .unwrap_or_default()
}

pub async fn run_intro_op(ctx: &Ctx, op: AOp, info: &TaskInfo, handle: &Handle) {
    use crate::api_app::AKind;
    match op.k {
        AKind::IntroRegister => {
            let i = op.a % 3;
            let r = match i {
                0 => handle.register_introspection::<T0>(),
                1 => handle.register_introspection::<T1>(),
                _ => handle.register_introspection::<T2>(),
            };
            if let Err(e) = r {
                return ctx.check_err("register_introspection", &e);
            }
            ctx.res.borrow_mut().intro_local.extend(closure(i).iter().copied());
            if op.b % 4 == 0 {
                return; // registered locally only, never submitted by this operation
            }
            if let Err(e) = handle.submit_introspection() {
                return ctx.check_err("submit_introspection", &e);
            }
            // A submit carries everything registered *up to this point* (requests reach the client
            // in program order); what sibling tasks register while we wait is not part of it.
            let local: Vec<u32> = ctx.res.borrow().intro_local.iter().copied().collect();
            if blocked(info, "Handle::sync_broker", true, handle.sync_broker()).await.is_err() {
                return;
            }
            // The broker has processed the registration (FIFO with the sync); clients below 1.17
            // do not submit anything.
            if ctx.minor >= 17 && !ctx.client_faulted.get() {
                let mut bb = ctx.bb.borrow_mut();
                for t in local {
                    bb.intro_registrants.entry(t).or_default().insert(ctx.client);
                }
                ctx.probe("introspection-registered");
            }
        }

        AKind::IntroQuery => {
            let i = op.a % 4;
            let local = ctx.res.borrow().intro_local.contains(&i);
            let before = stable_registrants(ctx, i);
            let r = blocked(info, "Handle::query_introspection", true, handle.query_introspection(type_id(i))).await;
            let after = stable_registrants(ctx, i);
            match r {
                Err(e) => ctx.check_err("query_introspection", &e),
                Ok(got) => {
                    let throughout = before.intersection(&after).next().is_some();
                    let must_some = i < 3 && (local || (ctx.minor >= 17 && throughout));
                    let bad = match &got {
                        Some(g) => i >= 3 || *g != expected(i),
                        None => must_some,
                    };
                    ctx.probe(match (&got, local) {
                        (Some(_), true) => "introspection-answered-locally",
                        (Some(_), false) => "introspection-answered-by-peer",
                        (None, _) => "introspection-unavailable",
                    });
                    if bad {
                        ctx.log.borrow_mut().violate(
                            "introspection.wrong-answer",
                            &[Prop::C06],
                            format!(
                                "client{} (1.{}): query_introspection(type {i}) returned {got:?}; registered locally: {local}; registrants connected throughout: {:?}",
                                ctx.client,
                                ctx.minor,
                                before.intersection(&after).collect::<Vec<_>>()
                            ),
                        );
                    }
                }
            }
        }
        _ => {}
    }
}
