// Included into model.rs: independent filter predicate, and comparison of the model with a snapshot.

/// Plain filter semantics, written independently of `aldrin_core::BusListenerFilter::matches_*`.
pub fn filter_matches_object(f: &BusListenerFilter, uuid: ObjectUuid) -> bool {
    match f {
        BusListenerFilter::Object(None) => true,
        BusListenerFilter::Object(Some(o)) => *o == uuid,
        BusListenerFilter::Service(_) => false,
    }
}

pub fn filter_matches_service(f: &BusListenerFilter, obj: ObjectUuid, svc: ServiceUuid) -> bool {
    match f {
        BusListenerFilter::Object(_) => false,
        BusListenerFilter::Service(sf) => {
            sf.object.map(|o| o == obj).unwrap_or(true) && sf.service.map(|s| s == svc).unwrap_or(true)
        }
    }
}

pub fn filter_matches_event(f: &BusListenerFilter, ev: BusEvent) -> bool {
    match ev {
        BusEvent::ObjectCreated(o) | BusEvent::ObjectDestroyed(o) => filter_matches_object(f, o.uuid),
        BusEvent::ServiceCreated(s) | BusEvent::ServiceDestroyed(s) => {
            filter_matches_service(f, s.object_id.uuid, s.uuid)
        }
    }
}

impl Model {
    fn expected_conn(&self, c: ConnId) -> ConnSnapshot {
        let conn = &self.conns[&c];
        let mut s = ConnSnapshot {
            version: Some(conn.version),
            ..Default::default()
        };
        for o in self.objs.values() {
            if o.conn == c {
                s.objects.insert(o.cookie);
            }
        }
        for (cookie, svc) in &self.svcs {
            for (e, set) in &svc.events {
                if set.contains(&c) {
                    s.events.entry(*cookie).or_default().insert(*e);
                }
            }
            if svc.all_events.contains(&c) {
                s.all_events.insert(*cookie);
            }
            if svc.subs.contains(&c) {
                s.subscriptions.insert(*cookie);
            }
        }
        for (cookie, ch) in &self.channels {
            if matches!(ch.sender, MEnd::Claimed { owner, .. } if owner == c) {
                s.senders.insert(*cookie);
            }
            if matches!(ch.receiver, MEnd::Claimed { owner, .. } if owner == c) {
                s.receivers.insert(*cookie);
            }
        }
        for (cookie, l) in &self.listeners {
            if l.conn == c {
                s.bus_listeners.insert(*cookie);
            }
        }
        for (caller_serial, callee_serial) in &conn.calls {
            let callee = self
                .calls
                .get(callee_serial)
                .and_then(|call| self.objs.get(&call.obj_uuid))
                .map(|o| o.conn)
                .unwrap_or(usize::MAX);
            s.calls.insert(*caller_serial, (*callee_serial, callee));
        }
        s
    }

    /// Compares the model with the broker's snapshot of the same step. `removed_in_step`: whether a
    /// connection went away in this step (then every mismatch is also evidence against C09).
    pub fn compare(&self, snap: &BrokerSnapshot, removed_in_step: bool, out: &mut Vec<Violation>) {
        let with9 = |p: Prop| -> Vec<Prop> {
            if removed_in_step {
                vec![p, Prop::C09]
            } else {
                vec![p]
            }
        };

        // -- connections ------------------------------------------------------------------------
        let mconns: BTreeSet<_> = self.conns.keys().copied().collect();
        let sconns: BTreeSet<_> = snap.conns.keys().copied().collect();
        if mconns != sconns {
            out.push(Violation::new(
                "state.connections",
                &[Prop::C09, Prop::C11, Prop::C12],
                format!("registered connections: model {mconns:?}, broker {sconns:?}"),
            ));
            return; // everything below would be noise
        }

        // -- registry ---------------------------------------------------------------------------
        {
            let m: BTreeMap<_, _> = self
                .objs
                .iter()
                .map(|(u, o)| (*u, (o.conn, o.cookie, o.services.clone())))
                .collect();
            let s: BTreeMap<_, _> = snap
                .objs
                .iter()
                .map(|(u, o)| (*u, (o.conn, o.cookie, o.services.clone())))
                .collect();
            if m != s {
                out.push(Violation::new(
                    "state.registry",
                    &with9(Prop::C03),
                    format!("objects: model {m:?}, broker {s:?}"),
                ));
            }
            if self.obj_cookies != snap.obj_uuids {
                out.push(Violation::new(
                    "state.registry",
                    &with9(Prop::C03),
                    format!(
                        "object cookies: model {:?}, broker {:?}",
                        self.obj_cookies, snap.obj_uuids
                    ),
                ));
            }
            let m: BTreeMap<_, _> = self
                .svcs
                .iter()
                .map(|(c, s)| {
                    (
                        *c,
                        (ObjectId::new(s.obj_uuid, s.obj_cookie), s.uuid, s.info),
                    )
                })
                .collect();
            if m != snap.svc_uuids {
                out.push(Violation::new(
                    "state.registry",
                    &with9(Prop::C03),
                    format!("services: model {m:?}, broker {:?}", snap.svc_uuids),
                ));
            }
            let mk: BTreeMap<_, _> = self.svc_keys.iter().map(|(k, c)| (*k, *c)).collect();
            let sk: BTreeMap<_, _> = snap.svcs.iter().map(|(k, s)| (*k, s.cookie)).collect();
            if mk != sk {
                out.push(Violation::new(
                    "state.registry",
                    &with9(Prop::C03),
                    format!("service keys: model {mk:?}, broker {sk:?}"),
                ));
            }
            for (k, s) in &snap.svcs {
                if let Some(m) = self.svcs.get(&s.cookie) {
                    if m.obj_cookie != s.object_cookie {
                        out.push(Violation::new(
                            "state.registry",
                            &with9(Prop::C03),
                            format!("service {k:?}: object cookie differs"),
                        ));
                    }
                }
            }
        }

        // -- calls ------------------------------------------------------------------------------
        {
            let m: BTreeMap<_, _> = self
                .calls
                .iter()
                .map(|(s, c)| (*s, (c.caller_serial, c.caller, c.obj_uuid, c.svc_uuid, c.aborted)))
                .collect();
            let s: BTreeMap<_, _> = snap
                .function_calls
                .iter()
                .map(|(s, c)| {
                    (
                        *s,
                        (c.caller_serial, c.caller_conn, c.callee_obj, c.callee_svc, c.aborted),
                    )
                })
                .collect();
            if m != s {
                out.push(Violation::new(
                    "state.calls",
                    &with9(Prop::C02),
                    format!("pending calls: model {m:?}, broker {s:?}"),
                ));
            }
            for (k, s) in &snap.svcs {
                if let Some(m) = self.svcs.get(&s.cookie) {
                    if m.calls != s.function_calls {
                        out.push(Violation::new(
                            "state.calls",
                            &with9(Prop::C02),
                            format!(
                                "service {k:?} pending callee serials: model {:?}, broker {:?}",
                                m.calls, s.function_calls
                            ),
                        ));
                    }
                }
            }
        }

        // -- subscriptions ----------------------------------------------------------------------
        for (k, s) in &snap.svcs {
            if let Some(m) = self.svcs.get(&s.cookie) {
                if m.events != s.events || m.all_events != s.all_events || m.subs != s.subscriptions {
                    out.push(Violation::new(
                        "state.subscriptions",
                        &with9(Prop::C04),
                        format!(
                            "service {k:?}: model events {:?} all {:?} subs {:?}; broker events {:?} all {:?} subs {:?}",
                            m.events, m.all_events, m.subs, s.events, s.all_events, s.subscriptions
                        ),
                    ));
                }
            }
        }

        // -- channels ---------------------------------------------------------------------------
        {
            let conv = |e: &ChannelEndSnapshot| match *e {
                ChannelEndSnapshot::Unclaimed => MEnd::Unclaimed,
                ChannelEndSnapshot::Claimed { owner, capacity } => MEnd::Claimed { owner, capacity },
                ChannelEndSnapshot::Closed => MEnd::Closed,
            };
            let m: BTreeMap<_, _> = self
                .channels
                .iter()
                .map(|(k, c)| (*k, (c.sender, c.receiver)))
                .collect();
            let s: BTreeMap<_, _> = snap
                .channels
                .iter()
                .map(|(k, c)| (*k, (conv(&c.sender), conv(&c.receiver))))
                .collect();
            if m != s {
                let diff: Vec<_> = m
                    .iter()
                    .filter(|(k, v)| s.get(k) != Some(v))
                    .map(|(k, v)| format!("{k:?}: model {v:?} broker {:?}", s.get(k)))
                    .chain(
                        s.iter()
                            .filter(|(k, _)| !m.contains_key(k))
                            .map(|(k, v)| format!("{k:?}: model absent, broker {v:?}")),
                    )
                    .collect();
                out.push(Violation::new(
                    "state.channels",
                    &with9(Prop::C05),
                    format!("channels differ: {}", diff.join("; ")),
                ));
            }
        }

        // -- listeners --------------------------------------------------------------------------
        {
            let m: BTreeMap<_, _> = self
                .listeners
                .iter()
                .map(|(k, l)| (*k, (l.conn, l.filters.clone(), l.scope)))
                .collect();
            let s: BTreeMap<_, _> = snap
                .bus_listeners
                .iter()
                .map(|(k, l)| (*k, (l.conn, l.filters.clone(), l.scope)))
                .collect();
            if m != s {
                out.push(Violation::new(
                    "state.listeners",
                    &with9(Prop::C10),
                    format!("bus listeners: model {m:?}, broker {s:?}"),
                ));
            }
        }

        // -- introspection ----------------------------------------------------------------------
        if let Some(si) = &snap.introspection {
            let m: BTreeMap<_, _> = self
                .intro
                .iter()
                .map(|(k, e)| (*k, (e.conns.clone(), e.cached.clone(), e.queried, e.pending.clone())))
                .collect();
            let s: BTreeMap<_, _> = si
                .iter()
                .map(|(k, e)| (*k, (e.conns.clone(), e.introspection.clone(), e.queried, e.pending.clone())))
                .collect();
            if m != s || self.intro_queries != snap.query_introspection {
                out.push(Violation::new(
                    "state.introspection",
                    &[Prop::C11, Prop::C09],
                    format!(
                        "introspection database: model {m:?} queries {:?}; broker {s:?} queries {:?}",
                        self.intro_queries, snap.query_introspection
                    ),
                ));
            }
        }

        // -- per-connection mirrors -------------------------------------------------------------
        for (c, sc) in &snap.conns {
            let mut exp = self.expected_conn(*c);
            let mut got = sc.clone();
            // O1 (DESIGN.md section 8): a stale all-events entry of a destroyed service is not
            // constrained by C04; project it away on both sides.
            got.all_events.retain(|k| self.svcs.contains_key(k));
            exp.all_events.retain(|k| self.svcs.contains_key(k));
            if exp != got {
                let area = if exp.objects != got.objects {
                    ("state.mirror.objects", Prop::C03)
                } else if exp.calls != got.calls {
                    ("state.mirror.calls", Prop::C02)
                } else if exp.senders != got.senders || exp.receivers != got.receivers {
                    ("state.mirror.channels", Prop::C05)
                } else if exp.bus_listeners != got.bus_listeners {
                    ("state.mirror.listeners", Prop::C10)
                } else if exp.version != got.version {
                    ("state.mirror.version", Prop::C12)
                } else {
                    ("state.mirror.subscriptions", Prop::C04)
                };
                out.push(Violation::new(
                    area.0,
                    &with9(area.1),
                    format!("connection {c}: model {exp:?}, broker {got:?}"),
                ));
            }
        }

        // -- gauges -----------------------------------------------------------------------------
        if let Some(g) = &snap.gauges {
            let exp = [
                ("num_connections", self.conns.len(), g.num_connections),
                ("num_objects", self.objs.len(), g.num_objects),
                ("num_services", self.svcs.len(), g.num_services),
                ("num_channels", self.channels.len(), g.num_channels),
                ("num_bus_listeners", self.listeners.len(), g.num_bus_listeners),
            ];
            if let Some(n) = g.num_introspections {
                if n != self.intro.len() {
                    out.push(Violation::new(
                        "gauge.num_introspections",
                        &[Prop::C09],
                        format!("statistics gauge num_introspections = {n}, true count = {}", self.intro.len()),
                    ));
                }
            }
            for (name, m, s) in exp {
                if m != s {
                    out.push(Violation::new(
                        &format!("gauge.{name}"),
                        &[Prop::C09],
                        format!(
                            "statistics gauge {name} = {s}, true count = {m}{}",
                            if name == "num_channels" && self.created_channel_by_doomed {
                                " (a CreateChannel reply could not be delivered earlier in this run)"
                            } else {
                                ""
                            }
                        ),
                    ));
                }
            }
        }

        if snap.has_work_left {
            out.push(Violation::new(
                "state.work-left",
                &[Prop::C09],
                "broker has deferred work left after a step".into(),
            ));
        }
    }

    pub fn is_empty_bus(&self) -> bool {
        self.objs.is_empty()
            && self.svcs.is_empty()
            && self.calls.is_empty()
            && self.channels.is_empty()
            && self.listeners.is_empty()
            && self.intro.is_empty()
            && self.intro_queries.is_empty()
    }
}

/// Internal consistency of a snapshot on its own (every cross-reference resolves both ways).
pub fn snapshot_consistency(snap: &BrokerSnapshot, out: &mut Vec<Violation>) {
    let mut bad = |what: String| {
        out.push(Violation::new(
            "state.internal-consistency",
            &[Prop::C09, Prop::C11],
            what,
        ));
    };
    for (cookie, uuid) in &snap.obj_uuids {
        match snap.objs.get(uuid) {
            Some(o) if o.cookie == *cookie => {}
            _ => bad(format!("obj_uuids[{cookie:?}] -> {uuid:?} has no matching object")),
        }
    }
    for (uuid, o) in &snap.objs {
        if snap.obj_uuids.get(&o.cookie) != Some(uuid) {
            bad(format!("object {uuid:?} missing from obj_uuids"));
        }
        match snap.conns.get(&o.conn) {
            Some(c) if c.objects.contains(&o.cookie) => {}
            _ => bad(format!("object {uuid:?}: owner {} does not list it", o.conn)),
        }
        for s in &o.services {
            match snap.svc_uuids.get(s) {
                Some((oid, _, _)) if oid.uuid == *uuid && oid.cookie == o.cookie => {}
                _ => bad(format!("object {uuid:?} lists unknown service {s:?}")),
            }
        }
    }
    for (cookie, (oid, suuid, _)) in &snap.svc_uuids {
        match snap.svcs.get(&(oid.uuid, *suuid)) {
            Some(s) if s.cookie == *cookie && s.object_cookie == oid.cookie => {}
            _ => bad(format!("svc_uuids[{cookie:?}] has no matching service")),
        }
        match snap.objs.get(&oid.uuid) {
            Some(o) if o.cookie == oid.cookie && o.services.contains(cookie) => {}
            _ => bad(format!("service {cookie:?}: object does not list it")),
        }
    }
    for (key, s) in &snap.svcs {
        match snap.svc_uuids.get(&s.cookie) {
            Some((oid, suuid, _)) if (oid.uuid, *suuid) == *key => {}
            _ => bad(format!("service {key:?} missing from svc_uuids")),
        }
        for serial in &s.function_calls {
            match snap.function_calls.get(serial) {
                Some(fc) if (fc.callee_obj, fc.callee_svc) == *key => {}
                _ => bad(format!("service {key:?} lists unknown call {serial}")),
            }
        }
        for (e, set) in &s.events {
            if set.is_empty() {
                bad(format!("service {key:?} has an empty subscriber set for event {e}"));
            }
            for c in set {
                match snap.conns.get(c) {
                    Some(cs)
                        if cs.events.get(&s.cookie).map(|x| x.contains(e)).unwrap_or(false) => {}
                    _ => bad(format!("service {key:?} event {e}: subscriber {c} has no mirror entry")),
                }
            }
        }
        for c in &s.all_events {
            match snap.conns.get(c) {
                Some(cs) if cs.all_events.contains(&s.cookie) => {}
                _ => bad(format!("service {key:?}: all-events subscriber {c} has no mirror entry")),
            }
        }
        for c in &s.subscriptions {
            match snap.conns.get(c) {
                Some(cs) if cs.subscriptions.contains(&s.cookie) => {}
                _ => bad(format!("service {key:?}: subscriber {c} has no mirror entry")),
            }
        }
    }
    for (serial, fc) in &snap.function_calls {
        match snap.svcs.get(&(fc.callee_obj, fc.callee_svc)) {
            Some(s) if s.function_calls.contains(serial) => {}
            _ => bad(format!("call {serial}: service does not list it")),
        }
        if !fc.aborted {
            match snap.conns.get(&fc.caller_conn) {
                Some(c) if c.calls.get(&fc.caller_serial).map(|x| x.0) == Some(*serial) => {}
                _ => bad(format!("call {serial}: caller does not list it")),
            }
        }
    }
    for (c, cs) in &snap.conns {
        for o in &cs.objects {
            match snap.obj_uuids.get(o).and_then(|u| snap.objs.get(u)) {
                Some(obj) if obj.conn == *c => {}
                _ => bad(format!("connection {c} lists object {o:?} it does not own")),
            }
        }
        for (svc, evs) in &cs.events {
            let Some((oid, su, _)) = snap.svc_uuids.get(svc) else {
                bad(format!("connection {c} subscribed to events of dead service {svc:?}"));
                continue;
            };
            let s = &snap.svcs[&(oid.uuid, *su)];
            for e in evs {
                if !s.events.get(e).map(|x| x.contains(c)).unwrap_or(false) {
                    bad(format!("connection {c}: event {e} of {svc:?} not mirrored in the service"));
                }
            }
        }
        for svc in &cs.subscriptions {
            match snap.svc_uuids.get(svc) {
                Some((oid, su, _)) if snap.svcs[&(oid.uuid, *su)].subscriptions.contains(c) => {}
                _ => bad(format!("connection {c}: service subscription {svc:?} not mirrored")),
            }
        }
        for ch in &cs.senders {
            match snap.channels.get(ch).map(|x| x.sender) {
                Some(ChannelEndSnapshot::Claimed { owner, .. }) if owner == *c => {}
                _ => bad(format!("connection {c} lists sender {ch:?} it does not own")),
            }
        }
        for ch in &cs.receivers {
            match snap.channels.get(ch).map(|x| x.receiver) {
                Some(ChannelEndSnapshot::Claimed { owner, .. }) if owner == *c => {}
                _ => bad(format!("connection {c} lists receiver {ch:?} it does not own")),
            }
        }
        for l in &cs.bus_listeners {
            match snap.bus_listeners.get(l) {
                Some(bl) if bl.conn == *c => {}
                _ => bad(format!("connection {c} lists bus listener {l:?} it does not own")),
            }
        }
        for (caller_serial, (callee_serial, _)) in &cs.calls {
            match snap.function_calls.get(callee_serial) {
                Some(fc) if fc.caller_conn == *c && fc.caller_serial == *caller_serial => {}
                _ => bad(format!("connection {c}: call {caller_serial} -> {callee_serial} not pending")),
            }
        }
    }
    for (cookie, ch) in &snap.channels {
        for (end, st) in [("sender", ch.sender), ("receiver", ch.receiver)] {
            if let ChannelEndSnapshot::Claimed { owner, .. } = st {
                let listed = snap.conns.get(&owner).map(|c| {
                    if end == "sender" {
                        c.senders.contains(cookie)
                    } else {
                        c.receivers.contains(cookie)
                    }
                });
                if listed != Some(true) {
                    bad(format!("channel {cookie:?}: {end} owner {owner} does not list it"));
                }
            }
        }
        let claimed = |e: ChannelEndSnapshot| matches!(e, ChannelEndSnapshot::Claimed { .. });
        if !claimed(ch.sender) && !claimed(ch.receiver) {
            bad(format!("channel {cookie:?} has no claimed end but still exists"));
        }
    }
    for (cookie, l) in &snap.bus_listeners {
        match snap.conns.get(&l.conn) {
            Some(c) if c.bus_listeners.contains(cookie) => {}
            _ => bad(format!("bus listener {cookie:?}: owner {} does not list it", l.conn)),
        }
    }
}
