//! Single-threaded executor whose every scheduling decision is made by the caller.
//!
//! Tasks are `!Send` futures. A waker only sets a flag in the shared ready set; *which* ready task is
//! polled next is decided by the harness (from the per-run PRNG or from a replayed choice list).

use std::any::Any;
use std::cell::RefCell;
use std::future::Future;
use std::panic::{self, AssertUnwindSafe};
use std::pin::Pin;
use std::sync::atomic::{AtomicBool, Ordering};
use std::sync::{Arc, Mutex, Once};
use std::task::{Context, Poll, Wake, Waker};

pub type TaskId = usize;

type BoxFut = Pin<Box<dyn Future<Output = ()>>>;

#[derive(Debug, Default)]
struct ReadySet {
    flags: Mutex<Vec<bool>>,
}

struct TaskWaker {
    id: TaskId,
    ready: Arc<ReadySet>,
}

impl Wake for TaskWaker {
    fn wake(self: Arc<Self>) {
        self.wake_by_ref();
    }

    fn wake_by_ref(self: &Arc<Self>) {
        let mut flags = self.ready.flags.lock().unwrap();
        if let Some(f) = flags.get_mut(self.id) {
            *f = true;
        }
    }
}

struct Slot {
    name: String,
    fut: Option<BoxFut>,
    waker: Waker,
    polls: u64,
    state: TaskState,
}

#[derive(Debug, Clone, Copy, PartialEq, Eq)]
pub enum TaskState {
    Running,
    Done,
    Dropped,
    Panicked,
}

#[derive(Debug, Clone)]
pub struct PanicInfo {
    pub message: String,
    pub location: String,
}

impl PanicInfo {
    /// A panic raised by simulator code (harness error) rather than by repository code.
    pub fn in_harness(&self) -> bool {
        self.location.contains("/verif/") || self.location.starts_with("src/")
    }
}

#[derive(Debug)]
pub enum PollOutcome {
    Pending,
    Done,
    Panicked(PanicInfo),
}

thread_local! {
    static LAST_PANIC: RefCell<Option<PanicInfo>> = const { RefCell::new(None) };
    static CAPTURE: RefCell<bool> = const { RefCell::new(false) };
}

static HOOK: Once = Once::new();
static QUIET: AtomicBool = AtomicBool::new(true);

pub fn set_panic_quiet(q: bool) {
    QUIET.store(q, Ordering::Relaxed);
}

/// Installs (once per process) a panic hook that records message and location in a thread-local
/// while a task poll is in progress, instead of printing.
pub fn install_panic_hook() {
    HOOK.call_once(|| {
        let default = panic::take_hook();
        panic::set_hook(Box::new(move |info| {
            let capturing = CAPTURE.with(|c| *c.borrow());
            if capturing {
                let message = if let Some(s) = info.payload().downcast_ref::<&str>() {
                    (*s).to_string()
                } else if let Some(s) = info.payload().downcast_ref::<String>() {
                    s.clone()
                } else {
                    "<non-string panic payload>".to_string()
                };
                let location = info
                    .location()
                    .map(|l| format!("{}:{}", l.file(), l.line()))
                    .unwrap_or_else(|| "<unknown>".to_string());
                LAST_PANIC.with(|p| *p.borrow_mut() = Some(PanicInfo { message, location }));
                if !QUIET.load(Ordering::Relaxed) {
                    default(info);
                }
            } else {
                default(info);
            }
        }));
    });
}

fn payload_to_info(payload: Box<dyn Any + Send>) -> PanicInfo {
    if let Some(info) = LAST_PANIC.with(|p| p.borrow_mut().take()) {
        return info;
    }
    let message = if let Some(s) = payload.downcast_ref::<&str>() {
        (*s).to_string()
    } else if let Some(s) = payload.downcast_ref::<String>() {
        s.clone()
    } else {
        "<non-string panic payload>".to_string()
    };
    PanicInfo {
        message,
        location: "<unknown>".into(),
    }
}

/// Runs `f` with panic capture on; returns the panic info on unwind.
pub fn catch<R>(f: impl FnOnce() -> R) -> Result<R, PanicInfo> {
    let prev = CAPTURE.with(|c| std::mem::replace(&mut *c.borrow_mut(), true));
    let res = panic::catch_unwind(AssertUnwindSafe(f));
    CAPTURE.with(|c| *c.borrow_mut() = prev);
    res.map_err(payload_to_info)
}

pub struct Exec {
    slots: Vec<Slot>,
    ready: Arc<ReadySet>,
    pub total_polls: u64,
}

impl Default for Exec {
    fn default() -> Self {
        Self::new()
    }
}

impl Exec {
    pub fn new() -> Self {
        install_panic_hook();
        Self {
            slots: Vec::new(),
            ready: Arc::new(ReadySet::default()),
            total_polls: 0,
        }
    }

    /// Spawns a task; it starts in the ready set.
    pub fn spawn(&mut self, name: impl Into<String>, fut: impl Future<Output = ()> + 'static) -> TaskId {
        let id = self.slots.len();
        self.ready.flags.lock().unwrap().push(true);
        let waker = Waker::from(Arc::new(TaskWaker {
            id,
            ready: self.ready.clone(),
        }));
        self.slots.push(Slot {
            name: name.into(),
            fut: Some(Box::pin(fut)),
            waker,
            polls: 0,
            state: TaskState::Running,
        });
        id
    }

    pub fn name(&self, id: TaskId) -> &str {
        &self.slots[id].name
    }

    pub fn state(&self, id: TaskId) -> TaskState {
        self.slots[id].state
    }

    pub fn polls(&self, id: TaskId) -> u64 {
        self.slots[id].polls
    }

    pub fn len(&self) -> usize {
        self.slots.len()
    }

    pub fn is_empty(&self) -> bool {
        self.slots.is_empty()
    }

    /// Ids of running tasks that have been woken, in ascending order.
    pub fn ready_tasks(&self, out: &mut Vec<TaskId>) {
        out.clear();
        let flags = self.ready.flags.lock().unwrap();
        for (id, slot) in self.slots.iter().enumerate() {
            if slot.state == TaskState::Running && flags[id] {
                out.push(id);
            }
        }
    }

    /// Ids of running tasks that have *not* been woken (candidates for spurious polls).
    pub fn parked_tasks(&self, out: &mut Vec<TaskId>) {
        out.clear();
        let flags = self.ready.flags.lock().unwrap();
        for (id, slot) in self.slots.iter().enumerate() {
            if slot.state == TaskState::Running && !flags[id] {
                out.push(id);
            }
        }
    }

    pub fn running_tasks(&self) -> Vec<TaskId> {
        (0..self.slots.len())
            .filter(|&id| self.slots[id].state == TaskState::Running)
            .collect()
    }

    pub fn wake(&self, id: TaskId) {
        self.ready.flags.lock().unwrap()[id] = true;
    }

    /// Polls one task once.
    pub fn poll(&mut self, id: TaskId) -> PollOutcome {
        let slot = &mut self.slots[id];
        assert!(slot.state == TaskState::Running, "poll of finished task");
        self.ready.flags.lock().unwrap()[id] = false;
        slot.polls += 1;
        self.total_polls += 1;

        let waker = slot.waker.clone();
        let mut fut = slot.fut.take().expect("task future present");
        let res = catch(|| {
            let mut cx = Context::from_waker(&waker);
            fut.as_mut().poll(&mut cx)
        });

        let slot = &mut self.slots[id];
        match res {
            Ok(Poll::Pending) => {
                slot.fut = Some(fut);
                PollOutcome::Pending
            }
            Ok(Poll::Ready(())) => {
                slot.state = TaskState::Done;
                drop(fut);
                PollOutcome::Done
            }
            Err(info) => {
                slot.state = TaskState::Panicked;
                // The future may be in an inconsistent state; leak it rather than run its
                // destructor (which could panic again).
                std::mem::forget(fut);
                PollOutcome::Panicked(info)
            }
        }
    }

    /// Drops a task's future without completing it (cancellation / crash of that task).
    pub fn drop_task(&mut self, id: TaskId) -> Result<(), PanicInfo> {
        let slot = &mut self.slots[id];
        if slot.state != TaskState::Running {
            return Ok(());
        }
        slot.state = TaskState::Dropped;
        let fut = slot.fut.take();
        catch(move || drop(fut))
    }

    /// Drops every remaining future (end of run).
    pub fn drop_all(&mut self) -> Result<(), PanicInfo> {
        let mut first = Ok(());
        for id in 0..self.slots.len() {
            if let Err(e) = self.drop_task(id) {
                if first.is_ok() {
                    first = Err(e);
                }
            }
        }
        first
    }
}
