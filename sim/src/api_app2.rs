//! Level B applications, second half: channels, bus listeners, discoverers, lifetimes.

use crate::api_app::*;
use aldrin::low_level::{UnboundReceiver, UnboundSender};
use aldrin::{DiscovererEventKind, Handle};
use aldrin_core::ObjectId;
use std::cell::{Cell, RefCell};
use std::rc::Rc;

fn chan_tag(ctx: &Ctx) -> u64 {
    let mut bb = ctx.bb.borrow_mut();
    bb.next_chan_tag += 1;
    bb.next_chan_tag
}

fn take_chan(ctx: &Ctx, sel: u32, pred: impl Fn(&Chan) -> bool) -> Option<(usize, Chan)> {
    let mut res = ctx.res.borrow_mut();
    let live: Vec<usize> = (0..res.chans.len())
        .filter(|i| res.chans[*i].as_ref().is_some_and(&pred))
        .collect();
    if live.is_empty() {
        return None;
    }
    let i = live[sel as usize % live.len()];
    res.chans[i].take().map(|c| (i, c))
}

fn put_chan(ctx: &Ctx, c: Chan) {
    ctx.res.borrow_mut().chans.push(Some(c));
}

/// Spawns producer or consumer for an established end.
fn spawn_end(ctx: &Ctx, end: Chan, n: u32, mode: u32, must: bool) {
    let c2 = ctx.clone();
    let holder: Rc<RefCell<Option<Rc<TaskInfo>>>> = Rc::new(RefCell::new(None));
    let h2 = holder.clone();
    let ti = match end {
        Chan::Sender(s, tag) => ctx.spawn(format!("client{}-producer{tag}", ctx.client), must, async move {
            let info = h2.borrow().clone().unwrap();
            producer_task(c2, s, tag, n, mode, must, info).await
        }),
        Chan::Receiver(r, tag) => {
            let stop_after = if mode % 5 == 4 { 1 + n / 2 } else { 0 };
            ctx.spawn(format!("client{}-consumer{tag}", ctx.client), must, async move {
                let info = h2.borrow().clone().unwrap();
                consumer_task(c2, r, tag, stop_after, must, info).await
            })
        }
        _ => return,
    };
    *holder.borrow_mut() = Some(ti);
}

pub async fn run_op2(ctx: &Ctx, op: AOp, info: &Rc<TaskInfo>, handle: Handle) {
    match op.k {
        // A complete channel session between this client and another one: create, hand the other
        // end over, claim/establish, then a producer and a consumer run to completion.
        AKind::ChanSession => {
            let peers = ctx.bb_ctxs();
            if peers.is_empty() {
                return;
            }
            let peer = peers[op.b as usize % peers.len()].clone();
            let tag = chan_tag(ctx);
            let n = 1 + op.c % 40;
            let cap = 1 + (op.c >> 8) % 16;
            let claimed = Rc::new(Cell::new(false));
            ctx.probe("channel-session");
            ctx.log.borrow_mut().session_tags.insert(tag);
            if op.a % 2 == 0 {
                // We hold the sender.
                let r = blocked(info, "ChannelBuilder::claim_sender", true, handle.create_low_level_channel().claim_sender()).await;
                let (pending, unclaimed) = match r {
                    Ok(x) => x,
                    Err(e) => return ctx.check_err("claim_sender", &e),
                };
                let unbound = unclaimed.unbind();
                let claimed2 = claimed.clone();
                let p2 = peer.clone();
                let holder: Rc<RefCell<Option<Rc<TaskInfo>>>> = Rc::new(RefCell::new(None));
                let h2 = holder.clone();
                let mode = op.d;
                let ti = peer.spawn(format!("client{}-session{tag}-claim", peer.client), true, async move {
                    let info = h2.borrow().clone().unwrap();
                    let Some(h) = p2.res.borrow().handle.clone() else { return };
                    let r = blocked(&info, "UnboundReceiver::claim", true, unbound.claim(h, cap)).await;
                    match r {
                        Ok(recv) => {
                            claimed2.set(true);
                            let stop_after = if mode % 5 == 4 { 1 + n / 2 } else { 0 };
                            consumer_task(p2.clone(), recv, tag, stop_after, true, info).await;
                        }
                        Err(e) => p2.check_err("UnboundReceiver::claim", &e),
                    }
                });
                *holder.borrow_mut() = Some(ti);
                info.dyn_must.replace(Some(claimed));
                let mut pending = pending;
                if op.d % 2 == 1 {
                    blocked(info, "PendingSender::wait_established", false, pending.wait_established()).await;
                }
                let r = blocked(info, "PendingSender::establish", false, pending.establish()).await;
                info.dyn_must.replace(None);
                match r {
                    Ok(sender) => spawn_end(ctx, Chan::Sender(sender, tag), n, op.d >> 3, true),
                    Err(e) => ctx.check_err("PendingSender::establish", &e),
                }
            } else {
                let r = blocked(info, "ChannelBuilder::claim_receiver", true, handle.create_low_level_channel().claim_receiver(cap)).await;
                let (unclaimed, pending) = match r {
                    Ok(x) => x,
                    Err(e) => return ctx.check_err("claim_receiver", &e),
                };
                let unbound = unclaimed.unbind();
                let claimed2 = claimed.clone();
                let p2 = peer.clone();
                let holder: Rc<RefCell<Option<Rc<TaskInfo>>>> = Rc::new(RefCell::new(None));
                let h2 = holder.clone();
                let mode = op.d >> 3;
                let ti = peer.spawn(format!("client{}-session{tag}-claim", peer.client), true, async move {
                    let info = h2.borrow().clone().unwrap();
                    let Some(h) = p2.res.borrow().handle.clone() else { return };
                    let r = blocked(&info, "UnboundSender::claim", true, unbound.claim(h)).await;
                    match r {
                        Ok(sender) => {
                            claimed2.set(true);
                            producer_task(p2.clone(), sender, tag, n, mode, true, info).await;
                        }
                        Err(e) => p2.check_err("UnboundSender::claim", &e),
                    }
                });
                *holder.borrow_mut() = Some(ti);
                info.dyn_must.replace(Some(claimed));
                let mut pending = pending;
                if op.d % 2 == 1 {
                    blocked(info, "PendingReceiver::wait_established", false, pending.wait_established()).await;
                }
                let r = blocked(info, "PendingReceiver::establish", false, pending.establish()).await;
                info.dyn_must.replace(None);
                match r {
                    Ok(recv) => spawn_end(ctx, Chan::Receiver(recv, tag), n, op.d, true),
                    Err(e) => ctx.check_err("PendingReceiver::establish", &e),
                }
            }
        }

        // Free-form channel operations: every end in every state, bound and claimed any number of
        // times on any client.
        AKind::ChanCreate => {
            let tag = chan_tag(ctx);
            if op.a % 2 == 0 {
                let r = blocked(info, "ChannelBuilder::claim_sender", true, handle.create_low_level_channel().claim_sender()).await;
                match r {
                    Ok((p, u)) => {
                        put_chan(ctx, Chan::PendingSender(p, tag));
                        put_chan(ctx, Chan::UnclaimedReceiver(u, tag));
                    }
                    Err(e) => ctx.check_err("claim_sender", &e),
                }
            } else {
                let r = blocked(info, "ChannelBuilder::claim_receiver", true, handle.create_low_level_channel().claim_receiver(1 + op.b % 16)).await;
                match r {
                    Ok((u, p)) => {
                        put_chan(ctx, Chan::UnclaimedSender(u, tag));
                        put_chan(ctx, Chan::PendingReceiver(p, tag));
                    }
                    Err(e) => ctx.check_err("claim_receiver", &e),
                }
            }
        }
        AKind::ChanUnbind => {
            let t = take_chan(ctx, op.a, |c| matches!(c, Chan::UnclaimedSender(..) | Chan::UnclaimedReceiver(..)));
            match t {
                Some((_, Chan::UnclaimedSender(u, tag))) => {
                    let ub: UnboundSender = u.unbind();
                    ctx.bb.borrow_mut().unbound_senders.push((ub, tag));
                }
                Some((_, Chan::UnclaimedReceiver(u, tag))) => {
                    let ub: UnboundReceiver = u.unbind();
                    ctx.bb.borrow_mut().unbound_receivers.push((ub, tag));
                }
                _ => {}
            }
        }
        AKind::ChanBind => {
            // The unbound values are Copy: binding the same end again (here or elsewhere) is what
            // applications can do with them.
            if op.b % 2 == 0 {
                let e = {
                    let bb = ctx.bb.borrow();
                    if bb.unbound_senders.is_empty() {
                        None
                    } else {
                        Some(bb.unbound_senders[op.a as usize % bb.unbound_senders.len()])
                    }
                };
                if let Some((ub, tag)) = e {
                    let first = ctx.bb.borrow_mut().bound.insert((tag, true));
                    if first || op.d & 0x100 == 0 {
                        ctx.probe(if first { "unbound-end-bound" } else { "unbound-end-bound-again" });
                        put_chan(ctx, Chan::UnclaimedSender(ub.bind(handle.clone()), tag));
                    }
                }
            } else {
                let e = {
                    let bb = ctx.bb.borrow();
                    if bb.unbound_receivers.is_empty() {
                        None
                    } else {
                        Some(bb.unbound_receivers[op.a as usize % bb.unbound_receivers.len()])
                    }
                };
                if let Some((ub, tag)) = e {
                    let first = ctx.bb.borrow_mut().bound.insert((tag, false));
                    if first || op.d & 0x100 == 0 {
                        ctx.probe(if first { "unbound-end-bound" } else { "unbound-end-bound-again" });
                        put_chan(ctx, Chan::UnclaimedReceiver(ub.bind(handle.clone()), tag));
                    }
                }
            }
        }
        AKind::ChanClaim => {
            let t = take_chan(ctx, op.a, |c| matches!(c, Chan::UnclaimedSender(..) | Chan::UnclaimedReceiver(..)));
            match t {
                Some((_, Chan::UnclaimedSender(u, tag))) => {
                    let r = if op.d % 8 == 7 && !ctx.no_cancel.get() {
                        // Cancel the claim while it is in flight.
                        match cancelling(info, u.claim(), 1 + (op.d >> 3) % 2).await {
                            Some(r) => r,
                            None => {
                                ctx.probe("claim-cancelled");
                                return;
                            }
                        }
                    } else {
                        blocked(info, "UnclaimedSender::claim", true, u.claim()).await
                    };
                    match r {
                        Ok(s) => {
                            ctx.probe("claim-ok");
                            if op.d % 2 == 0 {
                                spawn_end(ctx, Chan::Sender(s, tag), 1 + op.c % 10, op.d >> 1, false);
                            } else {
                                put_chan(ctx, Chan::Sender(s, tag));
                            }
                        }
                        Err(e) => {
                            ctx.probe("claim-fails");
                            ctx.check_err("UnclaimedSender::claim", &e);
                        }
                    }
                }
                Some((_, Chan::UnclaimedReceiver(u, tag))) => {
                    let r = if op.d % 8 == 7 && !ctx.no_cancel.get() {
                        match cancelling(info, u.claim(1 + op.b % 16), 1 + (op.d >> 3) % 2).await {
                            Some(r) => r,
                            None => {
                                ctx.probe("claim-cancelled");
                                return;
                            }
                        }
                    } else {
                        blocked(info, "UnclaimedReceiver::claim", true, u.claim(1 + op.b % 16)).await
                    };
                    match r {
                        Ok(rcv) => {
                            ctx.probe("claim-ok");
                            if op.d % 2 == 0 {
                                spawn_end(ctx, Chan::Receiver(rcv, tag), 0, op.d >> 1, false);
                            } else {
                                put_chan(ctx, Chan::Receiver(rcv, tag));
                            }
                        }
                        Err(e) => {
                            ctx.probe("claim-fails");
                            ctx.check_err("UnclaimedReceiver::claim", &e);
                        }
                    }
                }
                _ => {}
            }
        }
        AKind::ChanEstablish => {
            let t = take_chan(ctx, op.a, |c| matches!(c, Chan::PendingSender(..) | Chan::PendingReceiver(..)));
            let polls = 1 + op.b % 4;
            match t {
                Some((_, Chan::PendingSender(p, tag))) => {
                    match cancelling(info, p.establish(), polls).await {
                        Some(Ok(s)) => spawn_end(ctx, Chan::Sender(s, tag), 1 + op.c % 10, op.d, false),
                        Some(Err(e)) => ctx.check_err("PendingSender::establish", &e),
                        None => ctx.probe("establish-cancelled"),
                    }
                }
                Some((_, Chan::PendingReceiver(p, tag))) => {
                    match cancelling(info, p.establish(), polls).await {
                        Some(Ok(r)) => spawn_end(ctx, Chan::Receiver(r, tag), 0, op.d, false),
                        Some(Err(e)) => ctx.check_err("PendingReceiver::establish", &e),
                        None => ctx.probe("establish-cancelled"),
                    }
                }
                _ => {}
            }
        }
        AKind::ChanClose => {
            let t = take_chan(ctx, op.a, |_| true);
            if let Some((_, mut c)) = t {
                let r = match &mut c {
                    Chan::PendingSender(x, _) => blocked(info, "PendingSender::close", true, x.close()).await,
                    Chan::PendingReceiver(x, _) => blocked(info, "PendingReceiver::close", true, x.close()).await,
                    Chan::UnclaimedSender(x, _) => blocked(info, "UnclaimedSender::close", true, x.close()).await,
                    Chan::UnclaimedReceiver(x, _) => blocked(info, "UnclaimedReceiver::close", true, x.close()).await,
                    Chan::Sender(x, _) => blocked(info, "Sender::close", true, x.close()).await,
                    Chan::Receiver(x, _) => blocked(info, "Receiver::close", true, x.close()).await,
                };
                if let Err(e) = r {
                    ctx.check_err("channel close", &e);
                }
                // Keep a closed established end around (it is used and dropped later); using a
                // closed pending / unclaimed value again is not meaningful.
                if op.b % 2 == 0 && matches!(c, Chan::Sender(..) | Chan::Receiver(..)) {
                    put_chan(ctx, c);
                }
            }
        }
        AKind::ChanDrop => {
            let t = take_chan(ctx, op.a, |_| true);
            drop(t);
        }

        AKind::ListenerCreate => {
            let r = blocked(info, "Handle::create_bus_listener", true, handle.create_bus_listener()).await;
            match r {
                Ok(l) => ctx.res.borrow_mut().listeners.push(Some(l)),
                Err(e) => ctx.check_err("create_bus_listener", &e),
            }
        }
        AKind::ListenerAddFilter | AKind::ListenerRemoveFilter | AKind::ListenerClear => {
            let mut res = ctx.res.borrow_mut();
            let live: Vec<usize> = (0..res.listeners.len()).filter(|i| res.listeners[*i].is_some()).collect();
            if !live.is_empty() {
                let l = res.listeners[live[op.a as usize % live.len()]].as_mut().unwrap();
                let r = match op.k {
                    AKind::ListenerAddFilter => l.add_filter(filter_of(op.b)),
                    AKind::ListenerRemoveFilter => l.remove_filter(filter_of(op.b)),
                    _ => l.clear_filters(),
                };
                drop(res);
                if let Err(e) = r {
                    ctx.check_err("listener filter", &e);
                }
            }
        }
        AKind::ListenerStart | AKind::ListenerStop | AKind::ListenerDestroy | AKind::ListenerDrain => {
            let taken = {
                let mut res = ctx.res.borrow_mut();
                let live: Vec<usize> = (0..res.listeners.len()).filter(|i| res.listeners[*i].is_some()).collect();
                if live.is_empty() {
                    None
                } else {
                    let i = live[op.a as usize % live.len()];
                    res.listeners[i].take().map(|l| (i, l))
                }
            };
            if let Some((i, mut l)) = taken {
                match op.k {
                    AKind::ListenerStart => {
                        let r = blocked(info, "BusListener::start", true, l.start(scope_of(op.b))).await;
                        match r {
                            Ok(()) => ctx.probe("listener-started"),
                            Err(e) => ctx.check_err("BusListener::start", &e),
                        }
                    }
                    AKind::ListenerStop => {
                        let r = blocked(info, "BusListener::stop", true, l.stop()).await;
                        if let Err(e) = r {
                            ctx.check_err("BusListener::stop", &e);
                        }
                    }
                    AKind::ListenerDestroy => {
                        let r = blocked(info, "BusListener::destroy", true, l.destroy()).await;
                        if let Err(e) = r {
                            ctx.check_err("BusListener::destroy", &e);
                        }
                    }
                    _ => {
                        while let Some(Some(_ev)) = try_next(&mut l).await {
                            ctx.probe("bus-event-received");
                        }
                    }
                }
                ctx.res.borrow_mut().listeners[i] = Some(l);
            }
        }
        AKind::ListenerDrop => {
            let mut res = ctx.res.borrow_mut();
            let live: Vec<usize> = (0..res.listeners.len()).filter(|i| res.listeners[*i].is_some()).collect();
            if !live.is_empty() {
                let l = res.listeners[live[op.a as usize % live.len()]].take();
                drop(res);
                drop(l);
            }
        }

        AKind::DiscCreate => {
            let n = 1 + op.a % 3;
            let mut entries = Vec::new();
            for e in 0..n {
                let bits = op.b >> (e * 6);
                let object = if bits & 1 == 0 { Some((bits >> 1) % 3) } else { None };
                let mut svcs = Vec::new();
                for s in 0..3 {
                    if (bits >> (3 + s)) & 1 == 1 {
                        svcs.push(s);
                    }
                }
                if svcs.len() == 3 {
                    svcs.pop();
                }
                entries.push((object, svcs));
            }
            let spec = Rc::new(DiscSpec {
                entries,
                current_only: op.c % 4 == 0,
            });
            let mut b = handle.create_discoverer::<u32>();
            for (key, (o, s)) in uuids_of(&spec).into_iter().enumerate() {
                b = b.add(key as u32, o, s);
            }
            let r = if spec.current_only {
                blocked(info, "DiscovererBuilder::build_current_only", true, b.build_current_only()).await
            } else {
                blocked(info, "DiscovererBuilder::build", true, b.build()).await
            };
            match r {
                Ok(d) => {
                    ctx.probe("discoverer-created");
                    ctx.res.borrow_mut().discoverers.push(Some((d, spec, Vec::new())));
                }
                Err(e) => ctx.check_err("discoverer build", &e),
            }
        }
        AKind::DiscRestart | AKind::DiscDrain => {
            let taken = {
                let mut res = ctx.res.borrow_mut();
                let live: Vec<usize> = (0..res.discoverers.len()).filter(|i| res.discoverers[*i].is_some()).collect();
                if live.is_empty() {
                    None
                } else {
                    let i = live[op.a as usize % live.len()];
                    res.discoverers[i].take().map(|d| (i, d))
                }
            };
            if let Some((i, (mut d, spec, mut evs))) = taken {
                if op.k == AKind::DiscRestart {
                    let r = if spec.current_only {
                        blocked(info, "Discoverer::restart_current_only", true, d.restart_current_only()).await
                    } else {
                        blocked(info, "Discoverer::restart", true, d.restart()).await
                    };
                    match r {
                        Ok(()) => {
                            ctx.probe("discoverer-restarted");
                            evs.push(DiscEvRec {
                                key: 0,
                                created: false,
                                object: ObjectId::NIL,
                                restart: true,
                            });
                        }
                        Err(e) => ctx.check_err("Discoverer::restart", &e),
                    }
                } else {
                    drain_discoverer(&mut d, &mut evs, op.b % 4 as u32);
                }
                ctx.res.borrow_mut().discoverers[i] = Some((d, spec, evs));
            }
        }
        AKind::DiscDrop => {
            let mut res = ctx.res.borrow_mut();
            let live: Vec<usize> = (0..res.discoverers.len()).filter(|i| res.discoverers[*i].is_some()).collect();
            if !live.is_empty() {
                let d = res.discoverers[live[op.a as usize % live.len()]].take();
                drop(res);
                drop(d);
            }
        }
        AKind::FindObject | AKind::WaitForObject => {
            let object = if op.a % 4 == 3 { None } else { Some(crate::wire_ops::obj_uuid(op.a)) };
            let mut svcs = Vec::new();
            for s in 0..3 {
                if (op.b >> s) & 1 == 1 {
                    svcs.push(crate::wire_ops::svc_uuid(s));
                }
            }
            if object.is_none() && svcs.is_empty() {
                svcs.push(crate::wire_ops::svc_uuid(0));
            }
            let c2 = ctx.clone();
            let wait = op.k == AKind::WaitForObject;
            let holder: Rc<RefCell<Option<Rc<TaskInfo>>>> = Rc::new(RefCell::new(None));
            let h2 = holder.clone();
            let ti = ctx.spawn(format!("client{}-find", ctx.client), false, async move {
                let info = h2.borrow().clone().unwrap();
                let start = c2.bstep.get();
                let r = if wait {
                    blocked(&info, "Handle::wait_for_object", false, handle.wait_for_object(object, svcs.clone())).await.map(Some)
                } else {
                    blocked(&info, "Handle::find_object", true, handle.find_object(object, svcs.clone())).await
                };
                let end = c2.bstep.get();
                match r {
                    Ok(Some((oid, sids))) => {
                        c2.probe("object-found");
                        c2.finds.borrow_mut().push(FindRec { start, end, object: oid, services: sids, want_object: object, want_services: svcs });
                    }
                    Ok(None) => c2.probe("object-not-found"),
                    Err(e) => c2.check_err("find/wait_for_object", &e),
                }
            });
            *holder.borrow_mut() = Some(ti);
        }

        AKind::EventWaiter => {
            let taken = {
                let mut res = ctx.res.borrow_mut();
                let live: Vec<usize> = (0..res.proxies.len()).filter(|i| res.proxies[*i].is_some()).collect();
                if live.is_empty() {
                    None
                } else {
                    res.proxies[live[op.a as usize % live.len()]].take()
                }
            };
            if let Some(mut p) = taken {
                let c2 = ctx.clone();
                let holder: Rc<RefCell<Option<Rc<TaskInfo>>>> = Rc::new(RefCell::new(None));
                let h2 = holder.clone();
                let n = 1 + op.b % 4;
                let ti = ctx.spawn(format!("client{}-event-waiter", ctx.client), false, async move {
                    let info = h2.borrow().clone().unwrap();
                    for _ in 0..n {
                        match blocked(&info, "Proxy::next_event", false, p.next_event()).await {
                            Some(ev) => {
                                c2.probe("event-awaited");
                                let ok = matches!(ev.deserialize::<Vec<u64>>(), Ok(v) if v.len() == 2 && v[1] == ev.id() as u64);
                                if !ok || ev.service() != p.id() {
                                    c2.log.borrow_mut().violate(
                                        "event.corrupted",
                                        &[crate::model::Prop::C06, crate::model::Prop::C04],
                                        format!("client{}: awaited event cannot be attributed", c2.client),
                                    );
                                }
                            }
                            None => break,
                        }
                    }
                    c2.res.borrow_mut().proxies.push(Some(p));
                });
                *holder.borrow_mut() = Some(ti);
            }
        }
        AKind::ListenerWaiter => {
            let taken = {
                let mut res = ctx.res.borrow_mut();
                let live: Vec<usize> = (0..res.listeners.len()).filter(|i| res.listeners[*i].is_some()).collect();
                if live.is_empty() {
                    None
                } else {
                    res.listeners[live[op.a as usize % live.len()]].take()
                }
            };
            if let Some(mut l) = taken {
                let c2 = ctx.clone();
                let holder: Rc<RefCell<Option<Rc<TaskInfo>>>> = Rc::new(RefCell::new(None));
                let h2 = holder.clone();
                let n = 1 + op.b % 4;
                let ti = ctx.spawn(format!("client{}-listener-waiter", ctx.client), false, async move {
                    let info = h2.borrow().clone().unwrap();
                    for _ in 0..n {
                        match blocked(&info, "BusListener::next_event", false, l.next_event()).await {
                            Some(_) => c2.probe("bus-event-awaited"),
                            None => break,
                        }
                    }
                    c2.res.borrow_mut().listeners.push(Some(l));
                });
                *holder.borrow_mut() = Some(ti);
            }
        }
        AKind::DiscWaiter => {
            let taken = {
                let mut res = ctx.res.borrow_mut();
                let live: Vec<usize> = (0..res.discoverers.len()).filter(|i| res.discoverers[*i].is_some()).collect();
                if live.is_empty() {
                    None
                } else {
                    res.discoverers[live[op.a as usize % live.len()]].take()
                }
            };
            if let Some((mut d, spec, mut evs)) = taken {
                let c2 = ctx.clone();
                let holder: Rc<RefCell<Option<Rc<TaskInfo>>>> = Rc::new(RefCell::new(None));
                let h2 = holder.clone();
                let n = 1 + op.b % 3;
                let ti = ctx.spawn(format!("client{}-discoverer-waiter", ctx.client), false, async move {
                    let info = h2.borrow().clone().unwrap();
                    for _ in 0..n {
                        match blocked(&info, "Discoverer::next_event", false, d.next_event()).await {
                            Some(ev) => {
                                c2.probe("discoverer-event-awaited");
                                evs.push(DiscEvRec {
                                    key: ev.key(),
                                    created: ev.kind() == DiscovererEventKind::Created,
                                    object: ev.object_id(),
                                    restart: false,
                                });
                            }
                            None => break,
                        }
                    }
                    c2.res.borrow_mut().discoverers.push(Some((d, spec, evs)));
                });
                *holder.borrow_mut() = Some(ti);
            }
        }

        // C04 at API level: proxies with known subscriptions, a burst of events emitted by the
        // server after the subscriptions were acknowledged, two sync barriers, then every proxy must
        // hold exactly the events it was subscribed to, once each and in emission order.
        AKind::EventRound => {
            let target = {
                let bb = ctx.bb.borrow();
                if bb.service_cmds.is_empty() {
                    None
                } else {
                    Some(bb.service_cmds[op.a as usize % bb.service_cmds.len()].clone())
                }
            };
            let Some((sid, cmd)) = target else { return };
            // Three proxies: one subscribed to event e1, one to e1 and e2, one (if supported) to all
            // or to nothing.
            let e1 = op.b % 3;
            let e2 = (op.b / 3) % 3;
            let mut proxies = Vec::new();
            for _ in 0..3 {
                match blocked(info, "Handle::create_proxy", true, handle.create_proxy(sid)).await {
                    Ok(p) => proxies.push(p),
                    Err(e) => return ctx.check_err("create_proxy", &e),
                }
            }
            let mut subs: Vec<Vec<u32>> = vec![vec![e1], vec![e1, e2], vec![]];
            let mut all = [false, false, false];
            let mut ok = true;
            ok &= blocked(info, "Proxy::subscribe", true, proxies[0].subscribe(e1)).await.is_ok();
            ok &= blocked(info, "Proxy::subscribe", true, proxies[1].subscribe(e1)).await.is_ok();
            ok &= blocked(info, "Proxy::subscribe", true, proxies[1].subscribe(e2)).await.is_ok();
            if op.c % 2 == 0 && proxies[2].can_subscribe_all() {
                if blocked(info, "Proxy::subscribe_all", true, proxies[2].subscribe_all()).await.is_ok() {
                    all[2] = true;
                } else {
                    ok = false;
                }
            }
            if op.c % 3 == 0 {
                // Unsubscribe one again before the burst.
                ok &= blocked(info, "Proxy::unsubscribe", true, proxies[1].unsubscribe(e2)).await.is_ok();
                if e2 != e1 {
                    subs[1].retain(|e| *e != e2);
                } else {
                    subs[1].clear();
                }
            }
            if !ok {
                return; // the service went away meanwhile; nothing exact can be said
            }
            // `subscribe()` returns at once when another proxy of this client has the same
            // subscription *in flight* (observation O4); the barrier makes sure the broker has seen
            // every subscription request this client has sent so far.
            if blocked(info, "Handle::sync_broker", true, handle.sync_broker()).await.is_err() {
                return;
            }
            let burst: Vec<(u32, u64)> = (0..(2 + op.d % 5)).map(|i| ((op.b + i) % 3, ctx.unique())).collect();
            let (tx, rx) = futures_channel::oneshot::channel();
            if cmd.unbounded_send(SvcCmd::EmitSync(burst.clone(), tx)).is_err() {
                return;
            }
            let emitted = matches!(blocked(info, "server emit+sync", false, rx).await, Ok(true));
            let synced = blocked(info, "Handle::sync_broker", true, handle.sync_broker()).await.is_ok();
            if !emitted || !synced {
                ctx.probe("event-round-inconclusive");
                return;
            }
            // The service must have lived through the burst (its object may have been destroyed by
            // another task; the server task of a dead service still "emits", into the void). Services
            // do not come back under the same cookie, so being alive now is enough.
            if blocked(info, "Handle::create_proxy", true, handle.create_proxy(sid)).await.is_err() {
                ctx.probe("event-round-inconclusive");
                return;
            }
            for (pi, p) in proxies.iter_mut().enumerate() {
                let mut got = Vec::new();
                let mut ended = false;
                loop {
                    match try_next(p).await {
                        Some(Some(ev)) => {
                            if let Ok(v) = ev.deserialize::<Vec<u64>>() {
                                got.push((ev.id(), v.first().copied().unwrap_or(0)));
                            }
                        }
                        Some(None) => {
                            ended = true;
                            break;
                        }
                        None => break,
                    }
                }
                if ended {
                    continue; // the service was destroyed: the stream legitimately ends early
                }
                let want: Vec<(u32, u64)> = burst
                    .iter()
                    .copied()
                    .filter(|(e, _)| all[pi] || subs[pi].contains(e))
                    .collect();
                // Other tasks may make the same server emit concurrently; judge this round's ids.
                let mine: std::collections::BTreeSet<u64> = burst.iter().map(|b| b.1).collect();
                let got_mine: Vec<(u32, u64)> = got.into_iter().filter(|g| mine.contains(&g.1)).collect();
                ctx.probe("event-round-checked");
                if got_mine != want {
                    ctx.log.borrow_mut().violate(
                        "event.round-mismatch",
                        &[crate::model::Prop::C04, crate::model::Prop::C06],
                        format!(
                            "client{}: proxy {pi} of {:?} (subscribed to {:?}, all={}) received {got_mine:?} of the burst {burst:?}, expected {want:?}",
                            ctx.client, sid.cookie, subs[pi], all[pi]
                        ),
                    );
                    return;
                }
            }
        }

        // C05 at API level: "an end can be claimed once" and a refused claim changes nothing. A
        // private channel; the unclaimed end is unbound (the unbound value is Copy), claimed, and
        // claimed a second time by the same client, which must be refused; afterwards the channel
        // must still carry items in order and end cleanly.
        AKind::ClaimTwiceRound => {
            let n = 1 + (op.c % 5) as u64;
            let base = ctx.unique() << 8;
            let mut got: Vec<u64> = Vec::new();
            let mut second_claim_ok = false;
            if op.a % 2 == 0 {
                // Sender claimed twice.
                let Ok((us, pr)) = blocked(info, "ChannelBuilder::claim_receiver", true, handle.create_low_level_channel().claim_receiver(1 + op.b % 4)).await else { return };
                let ub: UnboundSender = us.unbind();
                let Ok(mut s1) = blocked(info, "UnclaimedSender::claim", true, ub.bind(handle.clone()).claim()).await else { return };
                // (Not cancelled: a claim future dropped in flight sends a close for its cookie, like
                // any dropped channel value - observation O5 - and would close `s1`.)
                let second = Some(blocked(info, "UnclaimedSender::claim", true, ub.bind(handle.clone()).claim()).await);
                match second {
                    Some(Ok(_)) => second_claim_ok = true,
                    Some(Err(aldrin::Error::Shutdown)) => return,
                    _ => {}
                }
                let Ok(mut r) = blocked(info, "PendingReceiver::establish", true, pr.establish()).await else { return };
                for i in 0..n {
                    if blocked(info, "Sender::send_item", true, s1.send_item(base | i)).await.is_err() {
                        break;
                    }
                    match blocked(info, "Receiver::next_item", true, r.next_item()).await {
                        Ok(Some(v)) => got.push(v),
                        _ => break,
                    }
                }
            } else {
                // Receiver claimed twice.
                let Ok((ps, ur)) = blocked(info, "ChannelBuilder::claim_sender", true, handle.create_low_level_channel().claim_sender()).await else { return };
                let ub: UnboundReceiver = ur.unbind();
                let Ok(mut r1) = blocked(info, "UnclaimedReceiver::claim", true, ub.bind(handle.clone()).claim(1 + op.b % 4)).await else { return };
                let second = Some(blocked(info, "UnclaimedReceiver::claim", true, ub.bind(handle.clone()).claim(2)).await);
                match second {
                    Some(Ok(_)) => second_claim_ok = true,
                    Some(Err(aldrin::Error::Shutdown)) => return,
                    _ => {}
                }
                let Ok(mut s) = blocked(info, "PendingSender::establish", true, ps.establish()).await else { return };
                for i in 0..n {
                    if blocked(info, "Sender::send_item", true, s.send_item(base | i)).await.is_err() {
                        break;
                    }
                    match blocked(info, "Receiver::next_item", true, r1.next_item()).await {
                        Ok(Some(v)) => got.push(v),
                        _ => break,
                    }
                }
            }
            if blocked(info, "Handle::sync_broker", true, handle.sync_broker()).await.is_err() {
                return; // the client is going away; nothing exact can be said
            }
            let want: Vec<u64> = (0..n).map(|i| base | i).collect();
            ctx.probe("claim-twice-round-checked");
            if second_claim_ok || got != want {
                ctx.log.borrow_mut().violate(
                    "channel.claim-twice",
                    &[crate::model::Prop::C05, crate::model::Prop::C06],
                    format!(
                        "client{}: private channel ({} end claimed twice): second claim succeeded: {second_claim_ok}; items delivered {got:?}, expected {want:?}",
                        ctx.client,
                        if op.a % 2 == 0 { "sender" } else { "receiver" }
                    ),
                );
            }
        }

        // C10 at API level: a listener with a known filter, started, then a matching and a
        // non-matching object created by this very task; after a sync the listener must hold exactly
        // the matching creation (and destruction).
        AKind::ListenerRound => {
            let mut l = match blocked(info, "Handle::create_bus_listener", true, handle.create_bus_listener()).await {
                Ok(l) => l,
                Err(e) => return ctx.check_err("create_bus_listener", &e),
            };
            // Private UUIDs, so that nobody else creates the same objects.
            let mine = aldrin_core::ObjectUuid(uuid::Uuid::from_u128(0xb0b0_0000_0000_4000_8000_0000_0000_0000u128 | ctx.unique() as u128));
            let other = aldrin_core::ObjectUuid(uuid::Uuid::from_u128(0xb0b1_0000_0000_4000_8000_0000_0000_0000u128 | ctx.unique() as u128));
            let filt = match op.a % 3 {
                0 => aldrin_core::BusListenerFilter::object(mine),
                1 => aldrin_core::BusListenerFilter::specific_object_any_service(mine),
                _ => aldrin_core::BusListenerFilter::object(mine),
            };
            if l.add_filter(filt).is_err() {
                return;
            }
            if op.b % 2 == 0 {
                // A second, non-matching filter and a removed one.
                let _ = l.add_filter(aldrin_core::BusListenerFilter::object(aldrin_core::ObjectUuid(uuid::Uuid::from_u128(77))));
                let _ = l.remove_filter(aldrin_core::BusListenerFilter::object(aldrin_core::ObjectUuid(uuid::Uuid::from_u128(77))));
            }
            let scope = if op.c % 2 == 0 { aldrin_core::BusListenerScope::All } else { aldrin_core::BusListenerScope::New };
            // A sibling listener of the same connection with an overlapping filter, started for
            // current entities only and left started: the new events the connection receives on
            // behalf of `l` are none of its business.
            let mut sibling = None;
            if (op.b >> 1) % 2 == 1 {
                let Ok(mut l0) = blocked(info, "Handle::create_bus_listener", true, handle.create_bus_listener()).await else { return };
                if l0.add_filter(aldrin_core::BusListenerFilter::object(mine)).is_err() {
                    return;
                }
                if blocked(info, "BusListener::start", true, l0.start(aldrin_core::BusListenerScope::Current)).await.is_err() {
                    return;
                }
                let mut got0 = Vec::new();
                while let Some(ev) = blocked(info, "BusListener::next_event", true, l0.next_event()).await {
                    got0.push(ev);
                }
                if blocked(info, "Handle::sync_broker", true, handle.sync_broker()).await.is_err() {
                    return;
                }
                if !got0.is_empty() {
                    ctx.log.borrow_mut().violate(
                        "listener.round-mismatch",
                        &[crate::model::Prop::C10, crate::model::Prop::C06],
                        format!("client{}: sibling listener (scope Current, nothing exists yet) received {got0:?}", ctx.client),
                    );
                }
                sibling = Some(l0);
            }
            if blocked(info, "BusListener::start", true, l.start(scope)).await.is_err() {
                return;
            }
            let o1 = blocked(info, "Handle::create_object", true, handle.create_object(mine)).await;
            let o2 = blocked(info, "Handle::create_object", true, handle.create_object(other)).await;
            let (Ok(o1), Ok(o2)) = (o1, o2) else { return };
            let svc = if op.a % 3 == 1 {
                blocked(info, "Object::create_service", true, o1.create_service(crate::wire_ops::svc_uuid(op.d), aldrin::low_level::ServiceInfo::new(0))).await.ok()
            } else {
                None
            };
            let id1 = o1.id();
            if (op.b >> 3) % 3 == 0 {
                // A short-lived listener: started for the current entities (one exists now) and
                // dropped at once, while its events are still in flight. Nobody may be confused by
                // the late messages.
                if let Ok(mut l2) = blocked(info, "Handle::create_bus_listener", true, handle.create_bus_listener()).await {
                    let _ = l2.add_filter(aldrin_core::BusListenerFilter::object(mine));
                    let sc = if (op.b >> 5) % 2 == 0 { aldrin_core::BusListenerScope::Current } else { aldrin_core::BusListenerScope::All };
                    if (op.b >> 6) % 2 == 0 {
                        let _ = blocked(info, "BusListener::start", true, l2.start(sc)).await;
                    } else {
                        // The start request itself is abandoned after one poll.
                        let _ = crate::api_app::cancelling(info, l2.start(sc), 1).await;
                    }
                    drop(l2);
                    ctx.probe("listener-dropped-with-events-in-flight");
                }
            }
            let destroy = op.d % 2 == 0;
            if destroy {
                if let Some(s) = &svc {
                    let _ = blocked(info, "Service::destroy", true, s.destroy()).await;
                }
                let _ = blocked(info, "Object::destroy", true, o1.destroy()).await;
            }
            if blocked(info, "Handle::sync_broker", true, handle.sync_broker()).await.is_err() {
                return;
            }
            let mut got = Vec::new();
            while let Some(Some(ev)) = try_next(&mut l).await {
                got.push(ev);
            }
            let mut want = Vec::new();
            let object_filter = op.a % 3 != 1;
            if object_filter {
                want.push(aldrin_core::BusEvent::ObjectCreated(id1));
            }
            if let Some(s) = &svc {
                want.push(aldrin_core::BusEvent::ServiceCreated(s.id()));
                if destroy {
                    want.push(aldrin_core::BusEvent::ServiceDestroyed(s.id()));
                }
            }
            if object_filter && destroy {
                want.push(aldrin_core::BusEvent::ObjectDestroyed(id1));
            }
            ctx.probe("listener-round-checked");
            if got != want {
                ctx.log.borrow_mut().violate(
                    "listener.round-mismatch",
                    &[crate::model::Prop::C10, crate::model::Prop::C06],
                    format!("client{}: listener with filter {filt:?} scope {scope:?} received {got:?}, expected {want:?}", ctx.client),
                );
            }
            if let Some(mut l0) = sibling {
                if (op.b >> 2) % 2 == 1 {
                    // Starting a started listener is refused and must leave no trace.
                    let r = blocked(info, "BusListener::start", true, l0.start(aldrin_core::BusListenerScope::All)).await;
                    match r {
                        Err(aldrin::Error::Shutdown) => return,
                        Err(_) => ctx.probe("listener-start-refused"),
                        Ok(()) => {
                            ctx.log.borrow_mut().violate(
                                "listener.round-mismatch",
                                &[crate::model::Prop::C10, crate::model::Prop::C06],
                                format!("client{}: starting an already started listener succeeded", ctx.client),
                            );
                            return;
                        }
                    }
                }
                // Restarted for current entities: exactly what exists now, nothing stale.
                if (op.b >> 7) % 3 == 0 && !ctx.no_cancel.get() {
                    // The stop request is abandoned after one poll; it still takes effect (the
                    // barrier makes sure the broker and the client have processed it).
                    let _ = crate::api_app::cancelling(info, l0.stop(), 1).await;
                    ctx.probe("listener-stop-cancelled");
                    if blocked(info, "Handle::sync_broker", true, handle.sync_broker()).await.is_err() {
                        return;
                    }
                } else if blocked(info, "BusListener::stop", true, l0.stop()).await.is_err() {
                    return;
                }
                if blocked(info, "BusListener::start", true, l0.start(aldrin_core::BusListenerScope::Current)).await.is_err() {
                    return;
                }
                if (op.b >> 9) % 2 == 1 {
                    // Filters changed right after the start: what the broker enumerated at start time
                    // must still be reported.
                    let _ = l0.remove_filter(aldrin_core::BusListenerFilter::object(mine));
                    ctx.probe("listener-filter-removed-after-start");
                }
                let mut got0 = Vec::new();
                while let Some(ev) = blocked(info, "BusListener::next_event", true, l0.next_event()).await {
                    got0.push(ev);
                }
                if blocked(info, "Handle::sync_broker", true, handle.sync_broker()).await.is_err() {
                    return;
                }
                let want0 = if destroy { vec![] } else { vec![aldrin_core::BusEvent::ObjectCreated(id1)] };
                ctx.probe("listener-round-sibling-checked");
                if got0 != want0 {
                    ctx.log.borrow_mut().violate(
                        "listener.round-mismatch",
                        &[crate::model::Prop::C10, crate::model::Prop::C06],
                        format!("client{}: sibling listener restarted with scope Current received {got0:?}, expected {want0:?}", ctx.client),
                    );
                }
            }
            drop(svc);
            drop(o2);
            drop(o1);
            drop(l);
        }

        AKind::ScopeCreate => {
            let r = blocked(info, "Handle::create_lifetime_scope", true, handle.create_lifetime_scope()).await;
            match r {
                Ok(s) => {
                    ctx.bb.borrow_mut().lifetimes.push(s.id());
                    ctx.res.borrow_mut().scopes.push(Some(s));
                }
                Err(e) => ctx.check_err("create_lifetime_scope", &e),
            }
        }
        AKind::ScopeEnd | AKind::ScopeDrop => {
            let taken = {
                let mut res = ctx.res.borrow_mut();
                let live: Vec<usize> = (0..res.scopes.len()).filter(|i| res.scopes[*i].is_some()).collect();
                if live.is_empty() {
                    None
                } else {
                    let i = live[op.a as usize % live.len()];
                    res.scopes[i].take().map(|s| (i, s))
                }
            };
            if let Some((i, s)) = taken {
                if op.k == AKind::ScopeEnd {
                    let r = blocked(info, "LifetimeScope::end", true, s.end()).await;
                    if let Err(e) = r {
                        ctx.check_err("LifetimeScope::end", &e);
                    }
                    ctx.res.borrow_mut().scopes[i] = Some(s);
                }
            }
        }
        AKind::LifetimeBind => {
            let id = {
                let bb = ctx.bb.borrow();
                if bb.lifetimes.is_empty() {
                    None
                } else {
                    Some(bb.lifetimes[op.a as usize % bb.lifetimes.len()])
                }
            };
            if let Some(id) = id {
                let r = blocked(info, "Handle::create_lifetime", true, handle.create_lifetime(id)).await;
                match r {
                    Ok(l) => {
                        ctx.probe("lifetime-bound");
                        ctx.res.borrow_mut().lifetimes.push(Some((l, id)));
                    }
                    Err(e) => ctx.check_err("create_lifetime", &e),
                }
            }
        }
        AKind::LifetimeCheck => {
            let taken = {
                let mut res = ctx.res.borrow_mut();
                let live: Vec<usize> = (0..res.lifetimes.len()).filter(|i| res.lifetimes[*i].is_some()).collect();
                if live.is_empty() {
                    None
                } else {
                    let i = live[op.a as usize % live.len()];
                    res.lifetimes[i].take().map(|s| (i, s))
                }
            };
            if let Some((i, (mut l, id))) = taken {
                let ended = std::future::poll_fn(|cx| std::task::Poll::Ready(l.poll_ended(cx).is_ready())).await;
                if ended {
                    ctx.probe("lifetime-ended-observed");
                    ctx.lifetime_obs.borrow_mut().push((id, ctx.bstep.get()));
                }
                ctx.res.borrow_mut().lifetimes[i] = Some((l, id));
            }
        }
        AKind::LifetimeWaiter => {
            let taken = {
                let mut res = ctx.res.borrow_mut();
                let live: Vec<usize> = (0..res.lifetimes.len()).filter(|i| res.lifetimes[*i].is_some()).collect();
                if live.is_empty() {
                    None
                } else {
                    res.lifetimes[live[op.a as usize % live.len()]].take()
                }
            };
            if let Some((mut l, id)) = taken {
                let c2 = ctx.clone();
                let holder: Rc<RefCell<Option<Rc<TaskInfo>>>> = Rc::new(RefCell::new(None));
                let h2 = holder.clone();
                let ti = ctx.spawn(format!("client{}-lifetime-waiter", ctx.client), false, async move {
                    let info = h2.borrow().clone().unwrap();
                    // Resolves when the scope ends - or when the client stops (end of stream).
                    blocked(&info, "Lifetime::ended", false, l.ended()).await;
                    if !c2.client_faulted.get() && !c2.stopping.get() {
                        c2.probe("lifetime-end-awaited");
                        c2.lifetime_obs.borrow_mut().push((id, c2.bstep.get()));
                    }
                    c2.res.borrow_mut().lifetimes.push(Some((l, id)));
                });
                *holder.borrow_mut() = Some(ti);
            }
        }
        AKind::LifetimeDrop => {
            let mut res = ctx.res.borrow_mut();
            let live: Vec<usize> = (0..res.lifetimes.len()).filter(|i| res.lifetimes[*i].is_some()).collect();
            if !live.is_empty() {
                let l = res.lifetimes[live[op.a as usize % live.len()]].take();
                drop(res);
                drop(l);
            }
        }
        _ => {}
    }
}

/// Consumes up to `max` (0 = all) pending discoverer events without blocking.
pub fn drain_discoverer(d: &mut aldrin::Discoverer<u32>, evs: &mut Vec<DiscEvRec>, max: u32) {
    let waker = futures_util::task::noop_waker();
    let mut cx = std::task::Context::from_waker(&waker);
    let mut n = 0;
    while let std::task::Poll::Ready(Some(ev)) = d.poll_next_event(&mut cx) {
        evs.push(DiscEvRec {
            key: ev.key(),
            created: ev.kind() == DiscovererEventKind::Created,
            object: ev.object_id(),
            restart: false,
        });
        n += 1;
        if max > 0 && n >= max {
            break;
        }
    }
}

impl Ctx {
    fn bb_ctxs(&self) -> Vec<Ctx> {
        self.peers.borrow().clone()
    }
}
