//! The one PRNG every decision of a run is derived from (splitmix64 / xorshift64*).

pub fn splitmix64(x: u64) -> u64 {
    let mut z = x.wrapping_add(0x9E37_79B9_7F4A_7C15);
    z = (z ^ (z >> 30)).wrapping_mul(0xBF58_476D_1CE4_E5B9);
    z = (z ^ (z >> 27)).wrapping_mul(0x94D0_49BB_1331_11EB);
    z ^ (z >> 31)
}

/// Seed of run `index` of a batch started with `base`.
pub fn run_seed(base: u64, index: u64) -> u64 {
    splitmix64(splitmix64(base) ^ index.wrapping_mul(0xD6E8_FEB8_6659_FD93))
}

#[derive(Debug, Clone)]
pub struct Rng {
    s: u64,
}

impl Rng {
    pub fn new(seed: u64) -> Self {
        Self {
            s: splitmix64(seed) | 1,
        }
    }

    /// Independent sub-stream.
    pub fn fork(&mut self, tag: u64) -> Self {
        Self::new(self.next_u64() ^ splitmix64(tag))
    }

    pub fn next_u64(&mut self) -> u64 {
        let mut x = self.s;
        x ^= x >> 12;
        x ^= x << 25;
        x ^= x >> 27;
        self.s = x;
        x.wrapping_mul(0x2545_F491_4F6C_DD1D)
    }

    pub fn next_u32(&mut self) -> u32 {
        (self.next_u64() >> 32) as u32
    }

    /// Uniform in `0..n` (`n > 0`).
    pub fn below(&mut self, n: usize) -> usize {
        debug_assert!(n > 0);
        ((self.next_u64() >> 11) % (n as u64)) as usize
    }

    pub fn range(&mut self, lo: usize, hi_incl: usize) -> usize {
        lo + self.below(hi_incl - lo + 1)
    }

    pub fn chance(&mut self, num: u32, den: u32) -> bool {
        (self.next_u64() >> 11) % (den as u64) < num as u64
    }

    pub fn pick<'a, T>(&mut self, items: &'a [T]) -> &'a T {
        &items[self.below(items.len())]
    }

    /// Index drawn with the given weights (at least one non-zero).
    pub fn weighted(&mut self, weights: &[u32]) -> usize {
        let total: u64 = weights.iter().map(|&w| w as u64).sum();
        debug_assert!(total > 0);
        let mut x = (self.next_u64() >> 11) % total;
        for (i, &w) in weights.iter().enumerate() {
            if x < w as u64 {
                return i;
            }
            x -= w as u64;
        }
        weights.len() - 1
    }
}

/// FNV-1a, used for trace hashes and signatures (never for scheduling).
#[derive(Debug, Clone, Copy)]
pub struct Fnv(pub u64);

impl Default for Fnv {
    fn default() -> Self {
        Self(0xcbf2_9ce4_8422_2325)
    }
}

impl Fnv {
    pub fn new() -> Self {
        Self::default()
    }

    pub fn bytes(&mut self, b: &[u8]) {
        for &x in b {
            self.0 ^= x as u64;
            self.0 = self.0.wrapping_mul(0x0000_0100_0000_01B3);
        }
    }

    pub fn u64(&mut self, x: u64) {
        self.bytes(&x.to_le_bytes());
    }

    pub fn str(&mut self, s: &str) {
        self.bytes(s.as_bytes());
        self.bytes(&[0xff]);
    }
}
