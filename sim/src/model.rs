//! `BusModel`: a small sequential reference model of the broker (DESIGN.md section 4, appendix A).
//!
//! It is driven by the broker's inputs in dequeue order (hook H2). Values the broker is free to
//! choose (cookies, callee serials, amount of credit announced to a sender) are adopted from the
//! snapshot taken after the same step (hook H3) and checked for what the properties say about them
//! (freshness, uniqueness, credit invariants). Everything else is predicted.

use aldrin_broker::verif::{
    BrokerSnapshot, ChannelEndSnapshot, ConnSnapshot, TapInput,
};
use aldrin_core::message::*;
use aldrin_core::{
    BusEvent, BusListenerCookie, BusListenerFilter, BusListenerScope, ChannelCookie, ChannelEnd,
    ChannelEndWithCapacity, ObjectCookie, ObjectId, ObjectUuid, ProtocolVersion, SerializedValue,
    ServiceCookie, ServiceId, ServiceInfo, ServiceUuid,
};
use std::collections::{BTreeMap, BTreeSet};
use uuid::Uuid;

pub type ConnId = usize;

/// Which property a rule belongs to (a check for property P only reports rules tagged P).
#[derive(Debug, Clone, Copy, PartialEq, Eq, PartialOrd, Ord, Hash)]
pub enum Prop {
    C02,
    C03,
    C04,
    C05,
    C06,
    C09,
    C10,
    C11,
    C12,
    C14,
    C15,
    C19,
}

impl Prop {
    pub fn name(self) -> &'static str {
        match self {
            Self::C02 => "C02",
            Self::C03 => "C03",
            Self::C04 => "C04",
            Self::C05 => "C05",
            Self::C06 => "C06",
            Self::C09 => "C09",
            Self::C10 => "C10",
            Self::C11 => "C11",
            Self::C12 => "C12",
            Self::C14 => "C14",
            Self::C15 => "C15",
            Self::C19 => "C19",
        }
    }

    pub fn parse(s: &str) -> Option<Self> {
        Some(match s {
            "C02" => Self::C02,
            "C03" => Self::C03,
            "C04" => Self::C04,
            "C05" => Self::C05,
            "C06" => Self::C06,
            "C09" => Self::C09,
            "C10" => Self::C10,
            "C11" => Self::C11,
            "C12" => Self::C12,
            "C14" => Self::C14,
            "C15" => Self::C15,
            "C19" => Self::C19,
            _ => return None,
        })
    }
}

#[derive(Debug, Clone)]
pub struct Violation {
    /// Stable rule id, e.g. `state.registry`, `stream.calls`, `gauge.num_channels`.
    pub rule: String,
    /// Properties this rule is evidence against.
    pub props: Vec<Prop>,
    pub detail: String,
}

impl Violation {
    pub fn new(rule: &str, props: &[Prop], detail: String) -> Self {
        Self {
            rule: rule.to_string(),
            props: props.to_vec(),
            detail,
        }
    }
}

/// A message the broker must send to `conn` in the current step. `from` tags the epoch of the
/// payload (None = produced by the broker).
#[derive(Debug, Clone)]
pub struct Expect {
    pub conn: ConnId,
    pub msg: Message,
    pub from: Option<ProtocolVersion>,
}

#[derive(Debug, Clone)]
pub struct MConn {
    pub version: ProtocolVersion,
    /// Its `Connection` task was dropped: every send to it fails.
    pub doomed: bool,
    /// Caller serial -> callee serial.
    pub calls: BTreeMap<u32, u32>,
}

#[derive(Debug, Clone)]
pub struct MObj {
    pub conn: ConnId,
    pub cookie: ObjectCookie,
    pub services: BTreeSet<ServiceCookie>,
}

#[derive(Debug, Clone)]
pub struct MSvc {
    pub obj_uuid: ObjectUuid,
    pub obj_cookie: ObjectCookie,
    pub uuid: ServiceUuid,
    pub info: ServiceInfo,
    pub calls: BTreeSet<u32>,
    pub events: BTreeMap<u32, BTreeSet<ConnId>>,
    pub all_events: BTreeSet<ConnId>,
    pub subs: BTreeSet<ConnId>,
}

#[derive(Debug, Clone)]
pub struct MCall {
    pub caller: ConnId,
    pub caller_serial: u32,
    pub svc: ServiceCookie,
    pub obj_uuid: ObjectUuid,
    pub svc_uuid: ServiceUuid,
    pub aborted: bool,
}

#[derive(Debug, Clone, Copy, PartialEq, Eq)]
pub enum MEnd {
    Unclaimed,
    Claimed { owner: ConnId, capacity: u32 },
    Closed,
}

#[derive(Debug, Clone)]
pub struct MChan {
    pub sender: MEnd,
    pub receiver: MEnd,
}

#[derive(Debug, Clone, Default)]
pub struct MIntro {
    pub conns: BTreeSet<ConnId>,
    pub cached: Option<SerializedValue>,
    pub queried: Option<(ConnId, u32)>,
    pub pending: Vec<(ConnId, u32)>,
}

#[derive(Debug, Clone)]
pub struct MListener {
    pub conn: ConnId,
    pub filters: BTreeSet<BusListenerFilter>,
    pub scope: Option<BusListenerScope>,
}

/// Outcome of one model step.
#[derive(Debug, Default, Clone)]
pub struct StepOut {
    pub expects: Vec<Expect>,
    /// Connections removed in this step (their expectations of this step are "partial").
    pub removed: Vec<(ConnId, bool)>,
    pub violations: Vec<Violation>,
    /// Short description of what happened, for traces and signatures.
    pub class: String,
    /// Reach probes hit in this step.
    pub probes: Vec<&'static str>,
}

#[derive(Debug, Default, Clone)]
pub struct Model {
    pub conns: BTreeMap<ConnId, MConn>,
    pub objs: BTreeMap<ObjectUuid, MObj>,
    pub obj_cookies: BTreeMap<ObjectCookie, ObjectUuid>,
    pub svcs: BTreeMap<ServiceCookie, MSvc>,
    pub svc_keys: BTreeMap<(ObjectUuid, ServiceUuid), ServiceCookie>,
    pub calls: BTreeMap<u32, MCall>,
    pub channels: BTreeMap<ChannelCookie, MChan>,
    pub listeners: BTreeMap<BusListenerCookie, MListener>,
    pub intro: BTreeMap<aldrin_core::TypeId, MIntro>,
    pub intro_queries: BTreeMap<u32, aldrin_core::TypeId>,
    pub seen_cookies: BTreeSet<Uuid>,
    pub seen_callee_serials: BTreeSet<u32>,
    pub shutdown_idle: bool,
    pub shutdown_now: bool,
    /// Gauge deltas that are known findings (S2) are tracked so that later steps stay comparable.
    pub ever_obj_uuids: BTreeSet<ObjectUuid>,
    pub created_channel_by_doomed: bool,

    // Per-step scratch.
    out: StepOut,
    pending_remove: Vec<(ConnId, bool)>,
    pending_abort: Vec<(u32, ConnId)>,
    /// Connections the broker tried to send to while ignoring the result (`let _ = send!`).
    soft_failed: BTreeSet<ConnId>,
    /// In what-if variants: this connection is removed after everything else.
    defer_conn: Option<ConnId>,
}

fn end_of(e: ChannelEndWithCapacity) -> ChannelEnd {
    match e {
        ChannelEndWithCapacity::Sender => ChannelEnd::Sender,
        ChannelEndWithCapacity::Receiver(_) => ChannelEnd::Receiver,
    }
}

impl Model {
    pub fn new() -> Self {
        Self::default()
    }

    fn version(&self, c: ConnId) -> Option<ProtocolVersion> {
        self.conns.get(&c).map(|c| c.version)
    }

    fn probe(&mut self, p: &'static str) {
        self.out.probes.push(p);
    }

    fn violate(&mut self, rule: &str, props: &[Prop], detail: String) {
        self.out.violations.push(Violation::new(rule, props, detail));
    }

    /// Send with `?` semantics: returns false (and schedules the removal of `c`) if `c` is doomed.
    fn send(&mut self, c: ConnId, msg: impl Into<Message>, from: Option<ProtocolVersion>) -> bool {
        let Some(conn) = self.conns.get(&c) else {
            return true;
        };
        self.out.expects.push(Expect {
            conn: c,
            msg: msg.into(),
            from,
        });
        if conn.doomed {
            self.probe("send-to-dropped-receiver-failed");
            self.pending_remove.push((c, false));
            false
        } else {
            true
        }
    }

    /// Send whose failure the broker ignores.
    fn send_soft(&mut self, c: ConnId, msg: impl Into<Message>) {
        let Some(conn) = self.conns.get(&c) else {
            return;
        };
        self.out.expects.push(Expect {
            conn: c,
            msg: msg.into(),
            from: None,
        });
        if conn.doomed {
            self.soft_failed.insert(c);
        }
    }

    fn owner_of_obj(&self, uuid: ObjectUuid) -> ConnId {
        self.objs[&uuid].conn
    }

    fn fresh(&mut self, what: &str, prop: Prop, cookie: Uuid) {
        if !self.seen_cookies.insert(cookie) {
            self.violate(
                "cookie.reused",
                &[prop],
                format!("{what} cookie {cookie} was issued before"),
            );
        }
    }

    // ---------------------------------------------------------------------------------------------
    // Step
    // ---------------------------------------------------------------------------------------------

    /// Applies one broker input; `snap` is the broker's state after the same step.
    pub fn step(&mut self, input: &TapInput, snap: &BrokerSnapshot) -> StepOut {
        self.out = StepOut::default();
        self.pending_remove.clear();
        self.pending_abort.clear();
        self.soft_failed.clear();

        match input {
            TapInput::NewConnection { conn, version } => {
                self.out.class = format!("new-conn:{}", version.minor());
                if self.conns.contains_key(conn) {
                    self.violate(
                        "conn.duplicate-id",
                        &[Prop::C09],
                        format!("connection id {conn} registered twice"),
                    );
                }
                self.conns.insert(
                    *conn,
                    MConn {
                        version: *version,
                        doomed: false,
                        calls: BTreeMap::new(),
                    },
                );
            }

            TapInput::ConnectionShutdown { conn } => {
                self.out.class = "conn-shutdown".into();
                self.pending_remove.push((*conn, false));
            }

            TapInput::ShutdownConnection { conn } => {
                self.out.class = "shutdown-conn".into();
                self.pending_remove.push((*conn, true));
            }

            TapInput::ShutdownBroker => {
                self.out.class = "shutdown-broker".into();
                let ids: Vec<_> = self.conns.keys().copied().collect();
                for id in ids {
                    self.pending_remove.push((id, true));
                }
                self.shutdown_now = true;
            }

            TapInput::ShutdownIdleBroker => {
                self.out.class = "shutdown-idle".into();
                self.shutdown_idle = true;
            }

            TapInput::TakeStatistics => {
                self.out.class = "take-statistics".into();
            }

            TapInput::Message { conn, msg } => {
                let kind = format!("{:?}", msg.kind());
                if self.conns.contains_key(conn) {
                    let ok = self.handle(*conn, msg.clone(), snap);
                    self.out.class = format!("{}{}", kind, if ok { "" } else { ":err" });
                    if !ok {
                        self.probe("handler-returned-err");
                        self.pending_remove.push((*conn, false));
                    }
                } else {
                    self.out.class = format!("{kind}:from-removed");
                    self.probe("input-from-removed-connection");
                }
            }
        }

        // Several connections may go away in this step, in an order the broker is free to choose.
        // What the *surviving* connections are sent does not depend on that order, but what the
        // removed ones were still sent does; their expectation becomes the union over "removed
        // last" variants (they may have received any subset of it).
        let multi = !self.pending_remove.is_empty()
            && (self.pending_remove.len() >= 2 || self.conns.values().any(|c| c.doomed));
        let pre = if multi && self.defer_conn.is_none() {
            Some(self.clone())
        } else {
            None
        };

        self.drain_deferred(snap);

        if let Some(pre) = pre {
            if self.out.removed.len() >= 2 {
                let removed: Vec<ConnId> = self.out.removed.iter().map(|r| r.0).collect();
                for r in removed {
                    let mut m = pre.clone();
                    m.defer_conn = Some(r);
                    m.drain_deferred(snap);
                    for e in m.out.expects.drain(..) {
                        if e.conn == r {
                            self.out.expects.push(e);
                        }
                    }
                }
            }
        }

        // Sends whose failure the broker ignores: the broker may or may not notice that the
        // connection is gone; adopt what it did.
        let soft: Vec<_> = self.soft_failed.iter().copied().collect();
        for c in soft {
            if self.conns.contains_key(&c) && !snap.conns.contains_key(&c) {
                self.pending_remove.push((c, false));
                self.drain_deferred(snap);
            }
        }

        std::mem::take(&mut self.out)
    }

    fn drain_deferred(&mut self, snap: &BrokerSnapshot) {
        let mut deferred: Option<(ConnId, bool)> = None;
        loop {
            if let Some((c, send_shutdown)) = self.pending_remove.pop() {
                if self.defer_conn == Some(c) {
                    if deferred.is_none() {
                        deferred = Some((c, send_shutdown));
                    }
                    continue;
                }
                self.remove_conn(c, send_shutdown, snap);
                continue;
            }
            if let Some((serial, callee)) = self.pending_abort.pop() {
                self.abort_call(serial, callee);
                continue;
            }
            if let Some((c, send_shutdown)) = deferred.take() {
                self.defer_conn = None;
                self.remove_conn(c, send_shutdown, snap);
                continue;
            }
            break;
        }
    }

    /// The harness dropped the `Connection` task of `c`.
    pub fn receiver_dropped(&mut self, c: ConnId) {
        if let Some(conn) = self.conns.get_mut(&c) {
            conn.doomed = true;
        }
    }

    // ---------------------------------------------------------------------------------------------
    // Removal cascades
    // ---------------------------------------------------------------------------------------------

    fn remove_conn(&mut self, c: ConnId, send_shutdown: bool, snap: &BrokerSnapshot) {
        let Some(conn) = self.conns.remove(&c) else {
            return;
        };
        self.out.removed.push((c, send_shutdown));

        if send_shutdown {
            // Sent before the connection is dropped; errors ignored.
            self.out.expects.push(Expect {
                conn: c,
                msg: Message::Shutdown(Shutdown),
                from: None,
            });
        }

        let listeners: Vec<_> = self
            .listeners
            .iter()
            .filter(|(_, l)| l.conn == c)
            .map(|(&k, _)| k)
            .collect();
        for l in &listeners {
            self.listeners.remove(l);
        }

        let objs: Vec<_> = self
            .objs
            .iter()
            .filter(|(_, o)| o.conn == c)
            .map(|(_, o)| o.cookie)
            .collect();
        let exp = {
            self.conns.insert(c, conn.clone());
            let e = self.expected_conn(c);
            self.conns.remove(&c);
            e
        };
        if !objs.is_empty()
            || !listeners.is_empty()
            || !exp.events.is_empty()
            || !exp.all_events.is_empty()
            || !exp.subscriptions.is_empty()
            || !exp.senders.is_empty()
            || !exp.receivers.is_empty()
            || !exp.calls.is_empty()
        {
            self.probe("conn-removed-with-state");
        }
        if objs.len() >= 2 {
            self.probe("disconnect-with-2+-objects");
        }
        for cookie in objs {
            self.remove_object(cookie);
        }

        // Event subscriptions held by c.
        let svc_cookies: Vec<_> = self.svcs.keys().copied().collect();
        for sc in &svc_cookies {
            let evs: Vec<u32> = self.svcs[sc]
                .events
                .iter()
                .filter(|(_, s)| s.contains(&c))
                .map(|(&e, _)| e)
                .collect();
            for e in evs {
                if self.unsubscribe_event_of(c, *sc, e) {
                    self.probe("last-subscriber-disconnects");
                    let owner = self.owner_of_obj(self.svcs[sc].obj_uuid);
                    self.send(
                        owner,
                        UnsubscribeEvent {
                            service_cookie: *sc,
                            event: e,
                        },
                        None,
                    );
                }
            }
        }
        for sc in &svc_cookies {
            if self.svcs[sc].all_events.contains(&c) && self.unsubscribe_all_of(c, *sc) {
                self.probe("last-all-subscriber-disconnects");
                let owner = self.owner_of_obj(self.svcs[sc].obj_uuid);
                self.send(
                    owner,
                    UnsubscribeAllEvents {
                        serial: None,
                        service_cookie: *sc,
                    },
                    None,
                );
            }
        }
        for sc in &svc_cookies {
            self.svcs.get_mut(sc).unwrap().subs.remove(&c);
        }

        // Channel ends.
        let chans: Vec<_> = self.channels.keys().copied().collect();
        for ch in &chans {
            if let Some(chan) = self.channels.get(ch) {
                if matches!(chan.sender, MEnd::Claimed { owner, .. } if owner == c) {
                    self.probe("owner-disconnect-closes-channel-end");
                    self.close_end(*ch, ChannelEnd::Sender);
                }
            }
        }
        for ch in &chans {
            if let Some(chan) = self.channels.get(ch) {
                if matches!(chan.receiver, MEnd::Claimed { owner, .. } if owner == c) {
                    self.probe("owner-disconnect-closes-channel-end");
                    self.close_end(*ch, ChannelEnd::Receiver);
                }
            }
        }

        // Calls pending as caller are aborted towards their callees.
        for (_, callee_serial) in conn.calls {
            if let Some(call) = self.calls.get(&callee_serial) {
                let callee = self
                    .objs
                    .get(&call.obj_uuid)
                    .map(|o| o.conn)
                    .unwrap_or(usize::MAX);
                self.probe("caller-disconnect-with-pending-call");
                self.pending_abort.push((callee_serial, callee));
            }
        }

        self.remove_intro_conn(c, snap);
    }

    /// Starts a query for `type_id` with one of its registrants (the broker picks; adopted).
    fn intro_query(&mut self, type_id: aldrin_core::TypeId, snap: &BrokerSnapshot) {
        let Some(entry) = self.intro.get(&type_id).cloned() else {
            return;
        };
        if entry.conns.is_empty() {
            return;
        }
        // A registrant whose task is gone and that the broker has dropped in this step must have
        // been picked (the failed send is what made the broker notice).
        let gone = entry.conns.iter().copied().find(|c| {
            self.conns.get(c).map(|x| x.doomed).unwrap_or(false) && !snap.conns.contains_key(c)
        });
        let adopted = match gone {
            Some(_) => None,
            None => snap
                .introspection
                .as_ref()
                .and_then(|i| i.get(&type_id))
                .and_then(|e| e.queried),
        };
        let (target, serial) = match adopted {
            Some((t, s)) if entry.conns.contains(&t) && !self.intro_queries.contains_key(&s) => (t, s),
            _ => {
                // Several queries for one type can start and end within a single step when the
                // queried connections go away in that same step; such a query is not observable
                // afterwards. Prefer a registrant that does not survive the step; if all survive,
                // the state comparison at the end of the step reports the missing query.
                let t = gone
                    .or_else(|| entry.conns.iter().copied().find(|c| !snap.conns.contains_key(c)))
                    .unwrap_or_else(|| *entry.conns.iter().next().unwrap());
                let mut s = u32::MAX;
                while self.intro_queries.contains_key(&s) {
                    s -= 1;
                }
                (t, s)
            }
        };
        self.intro.get_mut(&type_id).unwrap().queried = Some((target, serial));
        self.intro_queries.insert(serial, type_id);
        self.probe("introspection-query-forwarded");
        self.send(target, QueryIntrospection { serial, type_id }, None);
    }

    fn remove_intro_conn(&mut self, c: ConnId, snap: &BrokerSnapshot) {
        let ids: Vec<_> = self.intro.keys().copied().collect();
        for type_id in ids {
            let entry = self.intro.get_mut(&type_id).unwrap();
            let was_queried = entry.queried;
            if matches!(entry.queried, Some((q, _)) if q == c) {
                entry.queried = None;
            }
            entry.pending.retain(|(p, _)| *p != c);
            let registered = entry.conns.remove(&c);
            let retain = !(registered && entry.conns.is_empty());
            if let (Some((_, serial)), None) = (was_queried, entry.queried) {
                self.intro_queries.remove(&serial);
                if retain {
                    self.probe("introspection-query-continued-after-disconnect");
                    self.intro_query(type_id, snap);
                } else {
                    let pending = std::mem::take(&mut self.intro.get_mut(&type_id).unwrap().pending);
                    for (p, serial) in pending {
                        self.send(
                            p,
                            QueryIntrospectionReply {
                                serial,
                                result: QueryIntrospectionResult::Unavailable,
                            },
                            None,
                        );
                    }
                }
            }
            if !retain {
                self.intro.remove(&type_id);
            }
        }
    }

    fn remove_object(&mut self, cookie: ObjectCookie) {
        let Some(uuid) = self.obj_cookies.remove(&cookie) else {
            return;
        };
        let obj = self.objs.remove(&uuid).expect("model objs");
        if obj.services.len() >= 2 {
            self.probe("object-cascade-2+-services");
        }
        for sc in obj.services {
            self.remove_service(sc);
        }
        self.bus_event(BusEvent::ObjectDestroyed(ObjectId::new(uuid, cookie)));
    }

    fn remove_service(&mut self, cookie: ServiceCookie) {
        let Some(svc) = self.svcs.remove(&cookie) else {
            return;
        };
        self.svc_keys.remove(&(svc.obj_uuid, svc.uuid));
        if let Some(obj) = self.objs.get_mut(&svc.obj_uuid) {
            obj.services.remove(&cookie);
        }

        for serial in &svc.calls {
            let call = self.calls.remove(serial).expect("model calls");
            if !call.aborted {
                self.probe("service-removed-with-pending-call");
                if let Some(conn) = self.conns.get_mut(&call.caller) {
                    conn.calls.remove(&call.caller_serial);
                    self.send(
                        call.caller,
                        CallFunctionReply {
                            serial: call.caller_serial,
                            result: CallFunctionResult::InvalidService,
                        },
                        None,
                    );
                }
            }
        }

        let mut notify: BTreeSet<ConnId> = svc.subs.clone();
        for s in svc.events.values() {
            notify.extend(s.iter().copied());
        }
        if !notify.is_empty() {
            self.probe("service-destroyed-with-subscribers");
        }
        for c in notify {
            self.send(
                c,
                ServiceDestroyed {
                    service_cookie: cookie,
                },
                None,
            );
        }

        let oid = ObjectId::new(svc.obj_uuid, svc.obj_cookie);
        self.bus_event(BusEvent::ServiceDestroyed(ServiceId::new(oid, svc.uuid, cookie)));
    }

    /// `c` leaves subscribers(svc, e); the owner is told when that empties the set.
    fn unsubscribe_event_of(&mut self, c: ConnId, sc: ServiceCookie, e: u32) -> bool {
        let Some(svc) = self.svcs.get_mut(&sc) else {
            return false;
        };
        let Some(set) = svc.events.get_mut(&e) else {
            return false;
        };
        set.remove(&c);
        if set.is_empty() {
            svc.events.remove(&e);
            true
        } else {
            false
        }
    }

    fn unsubscribe_all_of(&mut self, c: ConnId, sc: ServiceCookie) -> bool {
        let Some(svc) = self.svcs.get_mut(&sc) else {
            return false;
        };
        let was_empty = svc.all_events.is_empty();
        svc.all_events.remove(&c);
        !was_empty && svc.all_events.is_empty()
    }

    /// Closes one end of a channel; notifies the other end's owner or removes the channel.
    fn close_end(&mut self, cookie: ChannelCookie, end: ChannelEnd) {
        let Some(chan) = self.channels.get_mut(&cookie) else {
            return;
        };
        let other = match end {
            ChannelEnd::Sender => {
                chan.sender = MEnd::Closed;
                chan.receiver
            }
            ChannelEnd::Receiver => {
                chan.receiver = MEnd::Closed;
                chan.sender
            }
        };
        match other {
            MEnd::Claimed { owner, .. } if self.conns.contains_key(&owner) => {
                self.send(owner, ChannelEndClosed { cookie, end }, None);
            }
            _ => {
                self.channels.remove(&cookie);
            }
        }
    }

    fn abort_call(&mut self, callee_serial: u32, callee: ConnId) {
        let Some(call) = self.calls.get_mut(&callee_serial) else {
            return;
        };
        if call.aborted {
            return;
        }
        call.aborted = true;
        let caller = call.caller;
        let caller_serial = call.caller_serial;

        if let Some(v) = self.version(callee) {
            if v >= ProtocolVersion::V1_16 {
                self.send(
                    callee,
                    AbortFunctionCall {
                        serial: callee_serial,
                    },
                    None,
                );
            } else {
                self.probe("old-callee-abort-suppressed");
            }
        }

        if let Some(conn) = self.conns.get_mut(&caller) {
            conn.calls.remove(&caller_serial);
            self.send(
                caller,
                CallFunctionReply {
                    serial: caller_serial,
                    result: CallFunctionResult::Aborted,
                },
                None,
            );
        }
    }

    /// Each connection owning at least one started, new-including listener with a matching filter
    /// gets the event once.
    fn bus_event(&mut self, event: BusEvent) {
        let mut targets = BTreeSet::new();
        let mut matching = 0;
        for l in self.listeners.values() {
            let includes_new = l.scope.map(BusListenerScope::includes_new).unwrap_or(false);
            if includes_new && l.filters.iter().any(|f| filter_matches_event(f, event)) {
                matching += 1;
                targets.insert(l.conn);
            }
        }
        if matching > targets.len() {
            self.probe("bus-event-deduplicated-per-connection");
        }
        if !targets.is_empty() {
            self.probe("bus-event-delivered");
        }
        for c in targets {
            self.send(
                c,
                EmitBusEvent {
                    cookie: None,
                    event,
                },
                None,
            );
        }
    }
}

include!("model_handlers.rs");
include!("model_compare.rs");
