//! Hand-written plans that every batch of a property runs before its generated ones: the triggers of
//! listed known findings (so that the check reports them on every run) and regression scenarios.

use crate::model::Prop;
use serde_json::{json, Value};

fn actor(minor: u32, legacy: bool, abuser: bool, script: Value) -> Value {
    json!({"major": 1, "minor": minor, "legacy": legacy, "capacity": 0, "abuser": abuser,
           "conformant": false, "window": 1, "script": script})
}

fn plan(seed: u64, actors: Vec<Value>) -> Value {
    json!({
        "seed": seed.to_string(), "pending_permille": 0, "spurious_permille": 0, "sched": "random",
        "pct_depth": 0, "max_steps": 20000, "teardown": "clean", "actors": actors,
    })
}

pub fn plans(prop: Prop) -> Vec<Value> {
    match prop {
        // S3: a 1.20 owner emits an event with an ill-formed payload (c % 16 == 15) to a 1.14 and a
        // 1.17 subscriber.
        Prop::C11 => vec![plan(
            0x53_33,
            vec![
                actor(
                    20,
                    false,
                    true,
                    json!([
                        ["CreateObject", 0, 0, 0, 0],
                        ["CreateService", 0, 0, 0, 0],
                        ["WaitSubscribed", 0, 0, 0, 0],
                        ["Stall", 59, 0, 0, 0],
                        ["EmitEvent", 0, 0, 15, 0],
                        ["Stall", 59, 0, 0, 0],
                        ["EmitEvent", 0, 0, 15, 0],
                    ]),
                ),
                actor(
                    14,
                    true,
                    false,
                    json!([["WaitService", 0, 0, 0, 0], ["SubscribeEvent", 0, 0, 0, 0], ["Sync", 0, 0, 0, 0]]),
                ),
                actor(
                    17,
                    false,
                    false,
                    json!([["WaitService", 0, 0, 0, 0], ["SubscribeEvent", 0, 0, 0, 0], ["Sync", 0, 0, 0, 0]]),
                ),
            ],
        )],
        _ => vec![],
    }
}
