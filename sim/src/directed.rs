//! Hand-written plans that every batch of a property runs before its generated ones: the triggers of
//! listed known findings (so that the check reports them on every run) and regression scenarios.

use crate::model::Prop;
use serde_json::{json, Value};

fn actor(minor: u32, legacy: bool, abuser: bool, script: Value) -> Value {
    json!({"major": 1, "minor": minor, "legacy": legacy, "capacity": 0, "abuser": abuser,
           "conformant": false, "window": 1, "script": script})
}

fn plan(seed: u64, actors: Vec<Value>) -> Value {
    json!({
        "seed": seed.to_string(), "pending_permille": 0, "spurious_permille": 0, "sched": "random",
        "pct_depth": 0, "max_steps": 20000, "teardown": "clean", "actors": actors,
    })
}

pub fn plans(prop: Prop) -> Vec<Value> {
    match prop {
        // S3: a 1.20 owner emits an event with an ill-formed payload (c % 16 == 15) to a 1.14 and a
        // 1.17 subscriber.
        Prop::C11 => {
            let mut v = c11_s3();
            v.extend(intro_scenarios());
            v
        }
        Prop::C12 => c12_grid(),
        Prop::C09 => intro_scenarios(),
        Prop::C02 => call_scenarios(),
        _ => vec![],
    }
}

/// Call scenarios (C02): one service owner of version v1, one or two callers of version v2, calls
/// pending when the owner goes away in each of the five ways (or answers late / twice), with the
/// caller's abort before or after. 4 x 2 x 6 x 2 = 96 plans.
fn call_scenarios() -> Vec<Value> {
    let mut plans = Vec::new();
    for (callee_minor, callee_legacy) in [(14u32, true), (15, false), (16, false), (20, false)] {
        for caller_minor in [16u32, 20] {
            for fate in ["EndShutdown", "EndTransportError", "EndEof", "EndDropTask", "EndBrokerShutdownConn", "ReplyLateTwice"] {
                for abort_first in [false, true] {
                    // The Sync makes the owner read its CreateServiceReply (the callers wait for that) before
                    // it stalls; the calls then pile up unanswered in front of it.
                    let mut owner = vec![
                        json!(["CreateObject", 0, 0, 0, 0]),
                        json!(["CreateService", 0, 0, 0, 0]),
                        json!(["Sync", 0, 0, 0, 0]),
                        json!(["Stall", 30, 0, 0, 0]),
                    ];
                    if fate == "ReplyLateTwice" {
                        owner.push(json!(["Reply", 0, 0, 0, 0]));
                        owner.push(json!(["Reply", 8, 0, 0, 0])); // an already answered call again
                        owner.push(json!(["DestroyService", 0, 0, 0, 0]));
                        owner.push(json!(["Sync", 0, 0, 0, 0]));
                    } else {
                        owner.push(json!([fate, 0, 0, 0, 0]));
                    }
                    let (abort_stall, rest_stall) = if abort_first { (4, 50) } else { (45, 10) };
                    let caller = json!([
                        ["WaitService", 0, 0, 0, 0],
                        ["Call", 0, 0, 0, 0],
                        ["Call", 0, 1, 0, 0],
                        ["Stall", abort_stall, 0, 0, 0],
                        ["Abort", 0, 0, 0, 0],
                        ["Stall", rest_stall, 0, 0, 0],
                        ["Call", 0, 2, 0, 0],
                        ["Sync", 0, 0, 0, 0],
                    ]);
                    let bystander = json!([["WaitService", 0, 0, 0, 0], ["Call", 0, 0, 0, 0], ["Stall", 59, 0, 0, 0], ["Sync", 0, 0, 0, 0]]);
                    let seed = 0x0c02_0000u64 + plans.len() as u64;
                    plans.push(plan(
                        seed,
                        vec![
                            actor(callee_minor, callee_legacy, false, Value::Array(owner)),
                            actor(caller_minor, false, false, caller),
                            actor(20, false, false, bystander),
                        ],
                    ));
                }
            }
        }
    }
    plans
}

fn c11_s3() -> Vec<Value> {
        vec![plan(
            0x53_33,
            vec![
                actor(
                    20,
                    false,
                    true,
                    json!([
                        ["CreateObject", 0, 0, 0, 0],
                        ["CreateService", 0, 0, 0, 0],
                        ["WaitSubscribed", 0, 0, 0, 0],
                        ["Stall", 59, 0, 0, 0],
                        ["EmitEvent", 0, 0, 15, 0],
                        ["Stall", 59, 0, 0, 0],
                        ["EmitEvent", 0, 0, 15, 0],
                    ]),
                ),
                actor(
                    14,
                    true,
                    false,
                    json!([["WaitService", 0, 0, 0, 0], ["SubscribeEvent", 0, 0, 0, 0], ["Sync", 0, 0, 0, 0]]),
                ),
                actor(
                    17,
                    false,
                    false,
                    json!([["WaitService", 0, 0, 0, 0], ["SubscribeEvent", 0, 0, 0, 0], ["Sync", 0, 0, 0, 0]]),
                ),
            ],
        )]
}

/// Introspection database scenarios (C09 / C11): three registrants of one type leaving in every
/// order (clean or by transport error), a querier asking before and after, optionally a fourth
/// registrant joining after the first has left and a stranger answering with the serial the broker
/// has in flight. 48 plans; the schedule of each comes from its seed.
fn intro_scenarios() -> Vec<Value> {
    let mut plans = Vec::new();
    let stalls = [[8u32, 24, 40], [8, 40, 24], [24, 8, 40], [24, 40, 8], [40, 8, 24], [40, 24, 8]];
    for (pi, perm) in stalls.iter().enumerate() {
        for ending in ["EndShutdown", "EndTransportError"] {
            for stranger in [false, true] {
                for late in [false, true] {
                    let mut actors = Vec::new();
                    for (ri, st) in perm.iter().enumerate() {
                        let mut script = vec![json!(["RegisterIntrospection", 0, 0, 0, 0]), json!(["Sync", 0, 0, 0, 0])];
                        if ri == 1 {
                            script.push(json!(["Stall", 4, 0, 0, 0]));
                            script.push(json!(["QueryIntrospectionReply", 0, 1, 0, 0]));
                        }
                        script.push(json!(["Stall", st, 0, 0, 0]));
                        script.push(json!([ending, 0, 0, 0, 0]));
                        actors.push(actor(20, false, false, Value::Array(script)));
                    }
                    // The querier.
                    actors.push(actor(
                        if pi % 2 == 0 { 20 } else { 17 },
                        false,
                        false,
                        json!([
                            ["Stall", 5, 0, 0, 0],
                            ["QueryIntrospection", 0, 0, 0, 0],
                            ["Stall", 30, 0, 0, 0],
                            ["QueryIntrospection", 0, 0, 0, 0],
                            ["Stall", 30, 0, 0, 0],
                            ["QueryIntrospection", 0, 0, 0, 0],
                            ["Sync", 0, 0, 0, 0],
                        ]),
                    ));
                    if late {
                        let mut a = actor(
                            20,
                            false,
                            false,
                            json!([["RegisterIntrospection", 0, 0, 0, 0], ["Sync", 0, 0, 0, 0], ["QueryIntrospectionReply", 0, 1, 0, 0], ["Stall", 20, 0, 0, 0], ["Sync", 0, 0, 0, 0]]),
                        );
                        a["start_after"] = json!(1);
                        actors.push(a);
                    }
                    if stranger {
                        actors.push(actor(
                            20,
                            false,
                            true,
                            json!([["Stall", 9, 0, 0, 0], ["QueryIntrospectionReply", 0, 1, 3, 0], ["Stall", 20, 0, 0, 0], ["QueryIntrospectionReply", 0, 1, 3, 0]]),
                        ));
                    }
                    let seed = 0x1270_0000u64 + plans.len() as u64;
                    plans.push(plan(seed, actors));
                }
            }
        }
    }
    plans
}

/// C12: the handshake grid and the gate table, enumerated completely in every batch.
fn c12_grid() -> Vec<Value> {
    let mut plans = Vec::new();

    // (i) Handshake grid: legacy Connect with minor in {0,13,14,15,20,21,MAX}; Connect2 with
    // major in {0,1,2} x minor in {0,13,14..21,1000,MAX}. The expected outcome is computed by the
    // harness from the rule in the property statement.
    let mut combos: Vec<(u32, u32, bool)> = Vec::new();
    for minor in [0u32, 13, 14, 15, 20, 21, u32::MAX] {
        combos.push((1, minor, true));
    }
    for major in [0u32, 1, 2] {
        for minor in [0u32, 13, 14, 15, 16, 17, 18, 19, 20, 21, 1000, u32::MAX] {
            combos.push((major, minor, false));
        }
    }
    for (i, chunk) in combos.chunks(6).enumerate() {
        let actors = chunk
            .iter()
            .map(|(major, minor, legacy)| {
                json!({"major": major, "minor": minor, "legacy": legacy, "capacity": 0, "abuser": false,
                       "conformant": false, "window": 1, "script": [["Sync", 0, 0, 0, 0]]})
            })
            .collect();
        plans.push(plan(0xC12_000 + i as u64, actors));
    }

    // (ii) Gate table: each gated request kind at each negotiated version 1.14..1.20. Below its
    // gate the broker must close the connection; at or above it the request is handled (the model
    // says how). d = 7 forces the newer message variant regardless of the version.
    let gated: [(&str, u32); 11] = [
        ("Abort", 0),
        ("RegisterIntrospection", 0),
        ("QueryIntrospection", 0),
        ("QueryIntrospectionReply", 0),
        ("CreateService", 7),
        ("QueryInfo", 0),
        ("SubscribeService", 0),
        ("UnsubscribeService", 0),
        ("SubscribeAll", 0),
        ("UnsubscribeAll", 0),
        ("Call", 7),
    ];
    for minor in 14u32..=20 {
        for (gi, group) in gated.chunks(4).enumerate() {
            let mut actors = vec![actor(
                20,
                false,
                false,
                json!([["CreateObject", 0, 0, 0, 0], ["CreateService", 0, 0, 0, 1], ["Stall", 59, 0, 0, 0], ["Stall", 59, 0, 0, 0]]),
            )];
            for (kind, d) in group {
                actors.push(json!({"major": 1, "minor": minor, "legacy": minor == 14 && gi % 2 == 0, "capacity": 0,
                    "abuser": false, "conformant": false, "window": 1,
                    "script": [["WaitService", 0, 0, 0, 0], ["CreateObject", 4, 0, 0, 0], ["Sync", 0, 0, 0, 0], [kind, 0, 0, 0, d], ["Sync", 0, 0, 0, 0]]}));
            }
            plans.push(plan(0xC12_100 + (minor as u64) * 8 + gi as u64, actors));
        }
    }
    plans
}
