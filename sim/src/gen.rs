//! Swarm generation of wire-level plans: one profile (workload bias) per property.

use crate::model::Prop;
use crate::rng::Rng;
use crate::sched::SchedKind;
use crate::wire::{ActorPlan, Teardown, WirePlan};
use crate::wire_ops::{Op, OpKind};

#[derive(Debug, Clone, Copy, PartialEq, Eq)]
pub enum Tier {
    Quick,
    Thorough,
}

impl Tier {
    pub fn name(self) -> &'static str {
        match self {
            Self::Quick => "quick",
            Self::Thorough => "thorough",
        }
    }
}

pub fn op_min_minor(k: OpKind) -> u32 {
    match k {
        OpKind::Abort => 16,
        OpKind::QueryInfo
        | OpKind::RegisterIntrospection
        | OpKind::QueryIntrospection
        | OpKind::QueryIntrospectionReply => 17,
        OpKind::SubscribeAll
        | OpKind::UnsubscribeAll
        | OpKind::SubscribeService
        | OpKind::UnsubscribeService => 18,
        _ => 14,
    }
}

struct Profile {
    weights: Vec<(OpKind, u32)>,
    /// Probability (percent) that an actor's script contains an ending fault.
    end_percent: u32,
    actors: (usize, usize),
    ops: (usize, usize),
}

fn profile(prop: Prop) -> Profile {
    use OpKind::*;
    match prop {
        Prop::C02 => Profile {
            weights: vec![
                (CreateObject, 5),
                (CreateService, 7),
                (Call, 22),
                (Reply, 18),
                (Abort, 7),
                (DestroyService, 3),
                (DestroyObject, 2),
                (Sync, 1),
                (SubscribeEvent, 1),
            ],
            end_percent: 30,
            actors: (2, 4),
            ops: (10, 40),
        },
        Prop::C03 => Profile {
            weights: vec![
                (CreateObject, 14),
                (DestroyObject, 7),
                (CreateService, 14),
                (DestroyService, 7),
                (QueryVersion, 5),
                (QueryInfo, 3),
                (SubscribeEvent, 2),
                (SubscribeService, 2),
                (SubscribeAll, 1),
                (Call, 3),
                (Reply, 2),
                (Sync, 1),
            ],
            end_percent: 25,
            actors: (2, 4),
            ops: (10, 40),
        },
        Prop::C04 => Profile {
            weights: vec![
                (CreateObject, 4),
                (CreateService, 7),
                (SubscribeEvent, 12),
                (UnsubscribeEvent, 7),
                (SubscribeAll, 6),
                (UnsubscribeAll, 5),
                (SubscribeService, 3),
                (UnsubscribeService, 2),
                (EmitEvent, 14),
                (DestroyService, 2),
                (DestroyObject, 1),
                (Sync, 1),
            ],
            end_percent: 30,
            actors: (2, 4),
            ops: (10, 40),
        },
        Prop::C05 => Profile {
            weights: vec![
                (CreateChannel, 8),
                (ClaimChannelEnd, 9),
                (CloseChannelEnd, 4),
                (SendItem, 24),
                (AddCapacity, 8),
                (Sync, 1),
            ],
            end_percent: 20,
            actors: (2, 3),
            ops: (10, 50),
        },
        Prop::C10 => Profile {
            weights: vec![
                (CreateListener, 6),
                (DestroyListener, 2),
                (AddFilter, 11),
                (RemoveFilter, 5),
                (ClearFilters, 2),
                (StartListener, 9),
                (StopListener, 5),
                (CreateObject, 8),
                (DestroyObject, 5),
                (CreateService, 8),
                (DestroyService, 4),
                (Sync, 1),
            ],
            end_percent: 20,
            actors: (2, 3),
            ops: (10, 40),
        },
        // Mixed bus activity: every connection ends up owning and subscribing to things.
        _ => Profile {
            weights: vec![
                (CreateObject, 8),
                (DestroyObject, 2),
                (CreateService, 8),
                (DestroyService, 2),
                (QueryVersion, 1),
                (QueryInfo, 1),
                (Call, 8),
                (Reply, 6),
                (Abort, 2),
                (SubscribeEvent, 5),
                (UnsubscribeEvent, 2),
                (SubscribeAll, 3),
                (UnsubscribeAll, 1),
                (SubscribeService, 2),
                (UnsubscribeService, 1),
                (EmitEvent, 4),
                (CreateChannel, 5),
                (ClaimChannelEnd, 5),
                (CloseChannelEnd, 2),
                (SendItem, 7),
                (AddCapacity, 2),
                (Sync, 1),
                (CreateListener, 4),
                (DestroyListener, 1),
                (AddFilter, 5),
                (RemoveFilter, 1),
                (ClearFilters, 1),
                (StartListener, 4),
                (StopListener, 1),
                (RegisterIntrospection, 3),
                (QueryIntrospection, 4),
                (QueryIntrospectionReply, 4),
                (TakeStatistics, 2),
            ],
            end_percent: 40,
            actors: (2, 4),
            ops: (8, 30),
        },
    }
}

const ENDINGS: [OpKind; 5] = [
    OpKind::EndShutdown,
    OpKind::EndTransportError,
    OpKind::EndEof,
    OpKind::EndDropTask,
    OpKind::EndBrokerShutdownConn,
];

fn random_op(rng: &mut Rng, k: OpKind) -> Op {
    // Selector arguments: two low bits choose the pool (own, own, any-known, never-issued).
    let sel = |rng: &mut Rng| -> u32 {
        let pool = match rng.below(20) {
            0..=13 => 0,
            14..=17 => 2,
            _ => 3,
        };
        (rng.next_u32() >> 8 << 2) | pool
    };
    let a = sel(rng);
    let b = rng.next_u32() >> 8;
    let c = rng.next_u32() >> 8;
    // d: bit0 = use the newer message variant when allowed; bits 1,2 = force it even when not
    // allowed (rare); bit 8 = reuse a pending call serial (rare).
    let mut d = rng.next_u32() & 0xf9 & !0x6;
    if rng.chance(1, 40) {
        d |= 6;
    }
    if rng.chance(1, 30) {
        d |= 0x100;
    }
    // A subscription request without a serial (closes the connection): rarely.
    if rng.chance(1, 150) {
        d |= 0x400;
    }
    // A service info payload that does not decode (closes the connection): rarely.
    if rng.chance(1, 60) {
        d |= 0x200;
    }
    Op::new(k, a, b, c, d)
}

fn gen_script(rng: &mut Rng, prof: &Profile, minor: u32, abuser: bool, conformant: bool, garbage: bool) -> Vec<Op> {
    let n = rng.range(prof.ops.0, prof.ops.1);
    let kinds: Vec<OpKind> = prof.weights.iter().map(|w| w.0).collect();
    let weights: Vec<u32> = prof.weights.iter().map(|w| w.1).collect();
    let mut script = Vec::with_capacity(n + 2);

    // A short prefix so that most connections own something early.
    if rng.chance(3, 4) {
        script.push(random_op(rng, OpKind::CreateObject));
        if rng.chance(3, 4) {
            let mut op = random_op(rng, OpKind::CreateService);
            op.a &= !3; // own object
            script.push(op);
        }
    }

    while script.len() < n {
        if abuser {
            // Any operation, including wrong-direction messages and garbage payloads.
            // A third raw frames, a third any kind uniformly, a third by the profile's weights (so
            // that a run concentrating on one subsystem is also abused there).
            let k = match rng.below(3) {
                0 => OpKind::Raw,
                1 => loop {
                    let k = *rng.pick(OpKind::ALL);
                    if k.is_message() {
                        break k;
                    }
                },
                _ => kinds[rng.weighted(&weights)],
            };
            let mut op = random_op(rng, k);
            op.c = rng.next_u32() >> 8; // garbage payload shape now and then (c % 16 == 15)
            if !garbage && op.c % 16 == 15 {
                op.c -= 1;
            }
            op.d = rng.next_u32() & 0x1ff;
            if rng.chance(1, 8) {
                op.d |= 0x200;
            }
            if rng.chance(1, 8) {
                op.d |= 0x400;
            }
            script.push(op);
            continue;
        }
        let k = kinds[rng.weighted(&weights)];
        if op_min_minor(k) > minor.min(20) && (conformant || !rng.chance(1, 20)) {
            continue;
        }
        let mut op = random_op(rng, k);
        if conformant {
            op.d &= !0x706; // never force newer variants, never reuse a pending serial, no bad info, always a serial
            if op.c % 16 == 15 {
                op.c -= 1;
            }
        } else {
            if op.c % 16 == 15 {
                op.c -= 1; // garbage payloads are the abusers' business
            }
        }
        if rng.chance(1, 25) {
            script.push(Op::new(OpKind::Stall, rng.next_u32() % 40, 0, 0, 0));
        }
        script.push(op);
    }

    if rng.chance(prof.end_percent, 100) {
        let pos = rng.below(script.len() + 1);
        let k = *rng.pick(&ENDINGS);
        script.insert(pos, Op::new(k, 0, 0, 0, 0));
    }
    script
}

fn pick_version(rng: &mut Rng) -> (u32, u32, bool) {
    // (major, minor, legacy)
    match rng.below(20) {
        0..=2 => (1, 14, true),
        3..=9 => (1, 20, false),
        10 => (1, 21 + rng.below(3) as u32, false),
        _ => (1, 14 + rng.below(7) as u32, false),
    }
}

pub fn pick_capacity(rng: &mut Rng) -> usize {
    *rng.pick(&[0usize, 0, 1, 2, 4, 16])
}

/// Generates the plan of run `seed` for `prop`.
pub fn gen_wire_plan(prop: Prop, seed: u64, tier: Tier) -> WirePlan {
    let mut rng = Rng::new(seed ^ 0x6e65_7067);
    let prof = profile(prop);
    let mut prof = prof;
    if tier == Tier::Thorough {
        // Deeper bounds in the thorough tier: one more connection, scripts up to twice as long.
        prof.actors.1 += 1;
        prof.ops.1 *= 2;
    }
    // Swarm style: a third of the mixed-profile runs concentrate on one subsystem (its operations
    // five times as likely), so that states needing several cooperating operations of one kind
    // (three registrants of one introspection type, several listeners, long call chains) are reached
    // within the quick budget.
    let mut intro_focus = false;
    if matches!(prop, Prop::C09 | Prop::C11 | Prop::C12) {
        let mut frng = Rng::new(seed ^ 0x666f_6375_73);
        use OpKind::*;
        let focus: &[OpKind] = match frng.below(15) {
            0 => &[Call, Reply, Abort],
            1 => &[SubscribeEvent, UnsubscribeEvent, SubscribeAll, UnsubscribeAll, SubscribeService, UnsubscribeService, EmitEvent],
            2 => &[CreateChannel, ClaimChannelEnd, CloseChannelEnd, SendItem, AddCapacity],
            3 => &[CreateListener, DestroyListener, AddFilter, RemoveFilter, ClearFilters, StartListener, StopListener],
            4 => &[RegisterIntrospection, QueryIntrospection, QueryIntrospectionReply],
            _ => &[],
        };
        for w in prof.weights.iter_mut() {
            if focus.contains(&w.0) {
                w.1 *= 5;
            }
        }
        intro_focus = focus.contains(&RegisterIntrospection);
    }
    let n_actors = rng.range(prof.actors.0, prof.actors.1);
    let mut actors = Vec::new();

    let n_abusers = if prop == Prop::C11 { rng.range(1, 2) } else { 0 };
    let conformant_others = prop == Prop::C11;
    // Ill-formed payloads trigger known finding S3 (a bystander's connection dies); keep 90 % of
    // the runs clear of it so that they are evaluated to the end.
    let garbage = rng.chance(1, 10);

    for i in 0..n_actors {
        let (mut major, mut minor, mut legacy) = pick_version(&mut rng);
        if prop == Prop::C12 && rng.chance(1, 6) {
            // Handshake requests outside the supported range.
            match rng.below(6) {
                0 => {
                    legacy = true;
                    minor = *rng.pick(&[0, 13, 15, 20, 21, u32::MAX]);
                }
                1 => major = *rng.pick(&[0, 2]),
                2 => minor = *rng.pick(&[0, 13]),
                3 => minor = *rng.pick(&[21, 1000, u32::MAX]),
                _ => {}
            }
        }
        if intro_focus && prop != Prop::C12 && !legacy && major == 1 && (14..17).contains(&minor) {
            // Introspection needs 1.17: most connections of such a run can take part.
            minor = 17 + (minor - 14);
        }
        let abuser = i < n_abusers;
        let connects = if legacy { minor == 14 } else { major == 1 && minor >= 14 };
        // C09: now and then an ordinary 1.20 connection emits ill-formed payloads, so that the
        // end of a connection by a failed epoch conversion is part of the explored endings.
        let gb = prop == Prop::C09 && minor >= 20 && !legacy && rng.chance(1, 8);
        let mut script = if connects {
            gen_script(&mut rng, &prof, minor, abuser, conformant_others && !abuser, garbage)
        } else {
            Vec::new()
        };
        if gb {
            for op in script.iter_mut() {
                if matches!(op.k, OpKind::EmitEvent | OpKind::Call | OpKind::Reply | OpKind::SendItem) && rng.chance(1, 3) {
                    op.c = (op.c & !0xf) | 15;
                }
            }
        }
        actors.push(ActorPlan {
            major,
            minor,
            legacy,
            capacity: pick_capacity(&mut rng),
            abuser,
            conformant: conformant_others && !abuser,
            window: *rng.pick(&[1usize, 1, 2, 4, 0]),
            garbage: gb,
            start_after: 0,
            script,
        });
    }

    // Connection churn (a fifth of the C09 runs, fewer elsewhere): short-lived connections and
    // late joiners, so that connection ids are released out of order and handed out again.
    let mut crng = Rng::new(seed ^ 0x6368_7572_6e21);
    let churn = match prop {
        Prop::C09 => crng.chance(1, 5),
        Prop::C03 | Prop::C11 => crng.chance(1, 12),
        _ => false,
    };
    if churn {
        for a in actors.iter_mut().skip(1) {
            if !a.script.is_empty() && !a.abuser && crng.chance(2, 3) {
                let keep = crng.range(1, 5).min(a.script.len());
                a.script.truncate(keep);
                a.script.retain(|op| !op.k.is_ending());
                a.script.push(Op::new(*crng.pick(&ENDINGS), 0, 0, 0, 0));
            }
        }
        for j in 0..crng.range(2, 3) {
            let (_, minor, _) = pick_version(&mut crng);
            let mut script = gen_script(&mut crng, &prof, minor.max(14), false, conformant_others, false);
            script.truncate(crng.range(2, 8).min(script.len()));
            actors.push(ActorPlan {
                major: 1,
                minor: minor.max(14),
                legacy: false,
                capacity: pick_capacity(&mut crng),
                abuser: false,
                conformant: conformant_others,
                window: *crng.pick(&[1usize, 2, 0]),
                garbage: false,
                start_after: 1 + (j as u32 + crng.below(2) as u32) / 2,
                script,
            });
        }
    }

    if prop == Prop::C11 {
        // A late-joining, well-behaved probe: connects after a long stall and must be served.
        let mut script = vec![Op::new(OpKind::Stall, 59, 0, 0, 0)];
        script.push(Op::new(OpKind::Sync, 0, 0, 0, 0));
        script.push(Op::new(OpKind::CreateObject, rng.next_u32() << 2, 0, 0, 0));
        script.push(Op::new(OpKind::CreateService, 0, rng.next_u32(), 1, 0));
        script.push(Op::new(OpKind::Call, 0, 0, 0, 0));
        script.push(Op::new(OpKind::Sync, 0, 0, 0, 0));
        actors.push(ActorPlan {
            major: 1,
            minor: 20,
            legacy: false,
            capacity: 0,
            abuser: false,
            conformant: true,
            window: 1,
            garbage: false,
            start_after: 0,
            script,
        });
    }

    let sched = match rng.below(5) {
        0 | 1 => SchedKind::Random,
        2 | 3 => SchedKind::Pct,
        _ => SchedKind::Sticky,
    };
    WirePlan {
        seed,
        actors,
        pending_permille: *rng.pick(&[0, 0, 10, 50, 100]),
        spurious_permille: *rng.pick(&[0, 0, 5, 20]),
        sched,
        pct_depth: rng.range(1, 5),
        max_steps: if tier == Tier::Thorough { 100_000 } else { 20_000 },
        teardown: if rng.chance(3, 4) {
            Teardown::Clean
        } else {
            Teardown::BrokerShutdown
        },
        fault_point: None,
    }
}

/// C09: fault enumeration. All variants of one base share the generated program; variant v ends
/// one victim connection in way v % 5 at a script position that sweeps the whole script as v grows.
pub fn gen_c09_plan(seed: u64, tier: Tier, index: u64, batch_seed: u64) -> WirePlan {
    let per_kind: u64 = match tier {
        Tier::Quick => 4,
        Tier::Thorough => 24,
    };
    let points = per_kind * ENDINGS.len() as u64;
    let base = index / points;
    let variant = index % points;
    let mut plan = gen_wire_plan(Prop::C09, crate::rng::run_seed(batch_seed ^ 0x0909, base), tier);
    plan.seed = seed; // schedule, hash order and transport behaviour differ per variant

    let candidates: Vec<usize> = (0..plan.actors.len()).filter(|i| !plan.actors[*i].script.is_empty()).collect();
    if candidates.is_empty() {
        return plan;
    }
    let mut vr = Rng::new(crate::rng::run_seed(batch_seed ^ 0x7669, base));
    let victim = candidates[vr.below(candidates.len())];
    let script = &mut plan.actors[victim].script;
    script.retain(|op| !op.k.is_ending());
    let len = script.len() as u64;
    let kind = ENDINGS[(variant % ENDINGS.len() as u64) as usize];
    let j = variant / ENDINGS.len() as u64;
    let pos = if per_kind <= 1 { 0 } else { (j * len) / (per_kind - 1) };
    script.insert(pos as usize, Op::new(kind, 0, 0, 0, 0));
    let mut h = crate::rng::Fnv::new();
    h.u64(base);
    h.u64(victim as u64);
    h.u64(pos);
    h.u64(kind as u8 as u64);
    plan.fault_point = Some((h.0, base, (len + 1) * ENDINGS.len() as u64));
    plan
}
