//! Level B applications: random closed programs over the public client API, interpreted by async
//! tasks that run under the deterministic executor.

use crate::model::{Prop, Violation};
use crate::wire_ops::{filter, obj_uuid, svc_uuid};
use aldrin::low_level::{
    PendingReceiver, PendingSender, Proxy, Receiver, Sender, Service, ServiceInfo, UnboundReceiver,
    UnboundSender, UnclaimedReceiver, UnclaimedSender,
};
use aldrin::{BusListener, Discoverer, Error, Handle, Lifetime, LifetimeId, LifetimeScope, Object};
use aldrin_core::{BusListenerScope, ObjectId, ObjectUuid, ServiceId, ServiceUuid};
use futures_channel::mpsc;
use futures_core::Stream;
use std::cell::{Cell, RefCell};
use std::collections::BTreeMap;
use std::future::Future;
use std::pin::Pin;
use std::rc::Rc;
use std::task::{Context, Poll};

macro_rules! a_kinds {
    ($($name:ident),* $(,)?) => {
        #[derive(Debug, Clone, Copy, PartialEq, Eq, PartialOrd, Ord, Hash)]
        pub enum AKind { $($name),* }

        impl AKind {
            pub const ALL: &'static [AKind] = &[$(AKind::$name),*];
            pub fn name(self) -> &'static str { match self { $(AKind::$name => stringify!($name)),* } }
            pub fn parse(s: &str) -> Option<Self> { match s { $(stringify!($name) => Some(AKind::$name),)* _ => None } }
        }
    };
}

a_kinds! {
    CreateObject, DestroyObject, DropObject,
    CreateService, SvcEmit, SvcDestroy, SvcDrop,
    CreateProxy, DropProxy, Subscribe, Unsubscribe, SubscribeAll, UnsubscribeAll, DrainEvents,
    Call,
    ChanSession, ChanCreate, ChanUnbind, ChanBind, ChanClaim, ChanEstablish, ChanClose, ChanDrop,
    SyncClient, SyncBroker,
    ListenerCreate, ListenerAddFilter, ListenerRemoveFilter, ListenerClear, ListenerStart,
    ListenerStop, ListenerDrain, ListenerDestroy, ListenerDrop,
    DiscCreate, DiscRestart, DiscDrain, DiscDrop, FindObject, WaitForObject,
    ScopeCreate, ScopeEnd, ScopeDrop, LifetimeBind, LifetimeCheck, LifetimeDrop,
    HandleClone, HandleDrop, Yield, Shutdown,
    // Blocking consumers (exercise wake-ups of event streams).
    EventWaiter, ListenerWaiter, DiscWaiter, LifetimeWaiter,
    // Deterministic rounds with exact expectations (C04 / C10 at API level).
    EventRound, ListenerRound, ClaimTwiceRound,
    // The client's introspection API.
    IntroRegister, IntroQuery,
}

#[derive(Debug, Clone, Copy, PartialEq, Eq)]
pub struct AOp {
    pub k: AKind,
    pub a: u32,
    pub b: u32,
    pub c: u32,
    pub d: u32,
}

impl AOp {
    pub fn new(k: AKind, a: u32, b: u32, c: u32, d: u32) -> Self {
        Self { k, a, b, c, d }
    }

    pub fn to_json(self) -> serde_json::Value {
        serde_json::json!([self.k.name(), self.a, self.b, self.c, self.d])
    }

    pub fn from_json(v: &serde_json::Value) -> Option<Self> {
        let arr = v.as_array()?;
        Some(Self {
            k: AKind::parse(arr.first()?.as_str()?)?,
            a: arr.get(1)?.as_u64()? as u32,
            b: arr.get(2)?.as_u64()? as u32,
            c: arr.get(3)?.as_u64()? as u32,
            d: arr.get(4)?.as_u64()? as u32,
        })
    }
}

/// What applications exchange out of band.
#[derive(Default)]
pub struct Board {
    pub services: Vec<ServiceId>,
    pub unbound_senders: Vec<(UnboundSender, u64)>,
    pub unbound_receivers: Vec<(UnboundReceiver, u64)>,
    pub lifetimes: Vec<LifetimeId>,
    pub next_unique: u64,
    pub next_chan_tag: u64,
    /// Tags of channel ends that some application has already bound.
    pub bound: std::collections::BTreeSet<(u64, bool)>,
    /// Per call id: (set once the caller has dropped its PendingReply, caller's protocol minor).
    pub call_abort_flags: BTreeMap<u64, (Rc<Cell<bool>>, u32)>,
    /// Command queues of all server tasks (any client may ask a server to emit).
    pub service_cmds: Vec<(ServiceId, mpsc::UnboundedSender<SvcCmd>)>,
    /// Per harness type index: clients whose registration the broker has processed.
    pub intro_registrants: BTreeMap<u32, std::collections::BTreeSet<usize>>,
}

pub type SharedBoard = Rc<RefCell<Board>>;

#[derive(Default)]
pub struct Log {
    pub violations: Vec<Violation>,
    pub probes: BTreeMap<&'static str, u64>,
    pub ops_done: u64,
    pub calls_checked: u64,
    pub items_checked: u64,
    /// Per channel tag: items the producer managed to send, in order; whether it closed normally.
    pub produced: BTreeMap<u64, (Vec<u64>, bool)>,
    pub consumed: BTreeMap<u64, (Vec<u64>, bool)>,
    /// Tags of complete channel sessions (nobody else holds a value for one of their ends).
    pub session_tags: std::collections::BTreeSet<u64>,
    pub trace: Vec<String>,
    pub tracing: bool,
    pub thash: crate::rng::Fnv,
}

pub type SharedLog = Rc<RefCell<Log>>;

impl Log {
    pub fn probe(&mut self, p: &'static str) {
        *self.probes.entry(p).or_insert(0) += 1;
    }

    pub fn violate(&mut self, rule: &str, props: &[Prop], detail: String) {
        if self.tracing {
            self.trace.push(format!("VIOLATION {rule}: {detail}"));
        }
        self.violations.push(Violation::new(rule, props, detail));
    }

    pub fn tr(&mut self, f: impl FnOnce() -> String) {
        if self.tracing {
            let s = f();
            self.trace.push(s);
        }
    }
}

pub enum SvcCmd {
    Emit(u32, u64),
    /// Emit the events, then `sync_broker`, then report whether everything succeeded.
    EmitSync(Vec<(u32, u64)>, futures_channel::oneshot::Sender<bool>),
    Destroy,
    Drop,
}

pub struct SvcCtl {
    pub id: ServiceId,
    pub cmd: mpsc::UnboundedSender<SvcCmd>,
}

pub enum Chan {
    PendingSender(PendingSender, u64),
    PendingReceiver(PendingReceiver, u64),
    UnclaimedSender(UnclaimedSender, u64),
    UnclaimedReceiver(UnclaimedReceiver, u64),
    Sender(Sender, u64),
    Receiver(Receiver, u64),
}

pub struct DiscSpec {
    /// (object uuid index or None for any, required service uuid indices)
    pub entries: Vec<(Option<u32>, Vec<u32>)>,
    pub current_only: bool,
}

#[derive(Default)]
pub struct Res {
    pub handle: Option<Handle>,
    pub extra_handles: Vec<Handle>,
    pub objects: Vec<Option<Object>>,
    pub services: Vec<SvcCtl>,
    pub proxies: Vec<Option<Proxy>>,
    pub chans: Vec<Option<Chan>>,
    pub listeners: Vec<Option<BusListener>>,
    pub discoverers: Vec<Option<(Discoverer<u32>, Rc<DiscSpec>, Vec<DiscEvRec>)>>,
    pub scopes: Vec<Option<LifetimeScope>>,
    pub lifetimes: Vec<Option<(Lifetime, LifetimeId)>>,
    /// Harness type indices this client has registered locally.
    pub intro_local: std::collections::BTreeSet<u32>,
}

#[derive(Debug, Clone)]
pub struct DiscEvRec {
    pub key: u32,
    pub created: bool,
    pub object: ObjectId,
    /// Restart marker (events before and after belong to different segments).
    pub restart: bool,
}

pub type SharedRes = Rc<RefCell<Res>>;

/// What a task is currently awaiting (for the lost-wake-up / deadlock oracle at quiescence).
#[derive(Default)]
pub struct TaskInfo {
    pub name: String,
    pub client: usize,
    pub blocked: Cell<Option<(&'static str, bool)>>,
    /// The blocking operation must complete once this flag is set (e.g. the peer has claimed).
    pub dyn_must: RefCell<Option<Rc<Cell<bool>>>>,
    /// ... unless this flag is set (e.g. the service the operation depends on is gone).
    pub dyn_unless: RefCell<Option<Rc<Cell<bool>>>>,
    /// The task is inside a poll-counting cancellation wrapper (an extra poll changes its course).
    pub in_cancel: Cell<u32>,
    pub done: Cell<bool>,
}

#[derive(Debug, Clone)]
pub struct FindRec {
    pub start: usize,
    pub end: usize,
    pub object: ObjectId,
    pub services: Vec<ServiceId>,
    pub want_object: Option<ObjectUuid>,
    pub want_services: Vec<ServiceUuid>,
}

pub type Spawner = Rc<RefCell<Vec<(String, Rc<TaskInfo>, Pin<Box<dyn Future<Output = ()>>>)>>>;

#[derive(Clone)]
pub struct Ctx {
    pub client: usize,
    /// Negotiated protocol minor version of this client.
    pub minor: u32,
    pub res: SharedRes,
    pub bb: SharedBoard,
    pub log: SharedLog,
    pub spawner: Spawner,
    /// Set once the harness has begun tearing the world down (errors are then expected).
    pub stopping: Rc<Cell<bool>>,
    /// Operations on this client may fail with Shutdown (a fault was injected or it was shut down).
    pub client_faulted: Rc<Cell<bool>>,
    pub peers: Rc<RefCell<Vec<Ctx>>>,
    /// Number of broker steps so far (the simulation's notion of "when").
    pub bstep: Rc<Cell<usize>>,
    pub finds: Rc<RefCell<Vec<FindRec>>>,
    pub lifetime_obs: Rc<RefCell<Vec<(LifetimeId, usize)>>>,
    /// This run exercises no cancellation (strict configuration).
    pub no_cancel: Rc<Cell<bool>>,
}

pub fn call_result(id: u64) -> u64 {
    id.wrapping_mul(3).wrapping_add(1)
}

/// Polls the inner future at most `polls` times (each time it is woken), then drops it.
pub struct CancelAfter<F> {
    fut: Option<Pin<Box<F>>>,
    polls: u32,
}

impl<F: Future> CancelAfter<F> {
    pub fn new(fut: F, polls: u32) -> Self {
        Self {
            fut: Some(Box::pin(fut)),
            polls,
        }
    }
}

impl<F: Future> Future for CancelAfter<F> {
    type Output = Option<F::Output>;

    fn poll(mut self: Pin<&mut Self>, cx: &mut Context) -> Poll<Self::Output> {
        if self.polls == 0 {
            self.fut = None;
            return Poll::Ready(None);
        }
        self.polls -= 1;
        match self.fut.as_mut().unwrap().as_mut().poll(cx) {
            Poll::Ready(x) => {
                self.fut = None;
                Poll::Ready(Some(x))
            }
            Poll::Pending => {
                if self.polls == 0 {
                    // Cancel on the next poll even if nothing wakes the inner future again.
                    cx.waker().wake_by_ref();
                }
                Poll::Pending
            }
        }
    }
}

/// Runs a cancellation wrapper while marking the task (an extra poll would change its course, so the
/// lost-wake-up probe at quiescence leaves such tasks alone).
pub async fn cancelling<F: Future>(info: &TaskInfo, fut: F, polls: u32) -> Option<F::Output> {
    info.in_cancel.set(info.in_cancel.get() + 1);
    let r = CancelAfter::new(fut, polls).await;
    info.in_cancel.set(info.in_cancel.get() - 1);
    r
}

/// Yields to the scheduler once.
pub struct YieldOnce(bool);

impl Future for YieldOnce {
    type Output = ();
    fn poll(mut self: Pin<&mut Self>, cx: &mut Context) -> Poll<()> {
        if self.0 {
            Poll::Ready(())
        } else {
            self.0 = true;
            cx.waker().wake_by_ref();
            Poll::Pending
        }
    }
}

pub fn yield_once() -> YieldOnce {
    YieldOnce(false)
}

/// Polls a stream once without blocking.
pub async fn try_next<S: Stream + Unpin>(s: &mut S) -> Option<Option<S::Item>> {
    std::future::poll_fn(|cx| match Pin::new(&mut *s).poll_next(cx) {
        Poll::Ready(x) => Poll::Ready(Some(x)),
        Poll::Pending => Poll::Ready(None),
    })
    .await
}

fn slot<T>(v: &mut Vec<Option<T>>, sel: u32) -> Option<(usize, T)> {
    let live: Vec<usize> = (0..v.len()).filter(|i| v[*i].is_some()).collect();
    if live.is_empty() {
        return None;
    }
    let i = live[sel as usize % live.len()];
    v[i].take().map(|x| (i, x))
}

impl Ctx {
    fn handle(&self) -> Option<Handle> {
        self.res.borrow().handle.clone()
    }

    pub fn unique(&self) -> u64 {
        let mut bb = self.bb.borrow_mut();
        bb.next_unique += 1;
        ((self.client as u64) << 40) | bb.next_unique
    }

    pub fn probe(&self, p: &'static str) {
        self.log.borrow_mut().probe(p);
    }

    /// An API error that nothing explains is a violation of C06 (and C15 when faults are on).
    pub fn check_err(&self, what: &str, e: &Error) {
        let expected_shutdown = self.stopping.get() || self.client_faulted.get();
        match e {
            Error::Shutdown if expected_shutdown => {}
            Error::Shutdown => self.log.borrow_mut().violate(
                "api.unexpected-shutdown-error",
                &[Prop::C06],
                format!("client{}: {what} failed with Shutdown although the client was neither shut down nor faulted", self.client),
            ),
            // Refusals by the broker are legitimate outcomes of racing programs.
            _ => {}
        }
    }

    pub fn spawn(&self, name: String, must_finish: bool, fut: impl Future<Output = ()> + 'static) -> Rc<TaskInfo> {
        let info = Rc::new(TaskInfo {
            name: name.clone(),
            client: self.client,
            blocked: Cell::new(None),
            dyn_must: RefCell::new(None),
            dyn_unless: RefCell::new(None),
            in_cancel: Cell::new(0),
            done: Cell::new(false),
        });
        let _ = must_finish;
        let info2 = info.clone();
        self.spawner.borrow_mut().push((
            name,
            info.clone(),
            Box::pin(async move {
                fut.await;
                info2.done.set(true);
            }),
        ));
        info
    }
}

/// Awaits `fut` while recording what the task is blocked in.
pub async fn blocked<F: Future>(info: &TaskInfo, what: &'static str, must: bool, fut: F) -> F::Output {
    info.blocked.set(Some((what, must)));
    let r = fut.await;
    info.blocked.set(None);
    r
}

/// The server task of one service: answers every call immediately according to the policy encoded in
/// its arguments, and executes commands from the owning application.
async fn server_task(ctx: Ctx, mut svc: Service, mut cmd: mpsc::UnboundedReceiver<SvcCmd>, info: Rc<TaskInfo>) {
    let held: Vec<aldrin::low_level::Promise> = Vec::new();
    // Set when this service goes away: calls held by sub-tasks can then no longer be aborted.
    let gone = Rc::new(Cell::new(false));
    struct SetOnDrop(Rc<Cell<bool>>);
    impl Drop for SetOnDrop {
        fn drop(&mut self) {
            self.0.set(true);
        }
    }
    let _guard = SetOnDrop(gone.clone());
    loop {
        enum Ev {
            Call(Option<aldrin::low_level::Call>),
            Cmd(Option<SvcCmd>),
        }
        info.blocked.set(Some(("server:next_call", false)));
        let ev = std::future::poll_fn(|cx| {
            if let Poll::Ready(c) = Pin::new(&mut cmd).poll_next(cx) {
                return Poll::Ready(Ev::Cmd(c));
            }
            match svc.poll_next_call(cx) {
                Poll::Ready(c) => Poll::Ready(Ev::Call(c)),
                Poll::Pending => Poll::Pending,
            }
        })
        .await;
        info.blocked.set(None);
        match ev {
            Ev::Cmd(Some(SvcCmd::Emit(event, unique))) => {
                if let Err(e) = svc.emit(event, vec![unique, event as u64]) {
                    ctx.check_err("Service::emit", &e);
                }
            }
            Ev::Cmd(Some(SvcCmd::EmitSync(events, done))) => {
                // The owner's client only forwards events it believes somebody is subscribed to; that
                // belief is updated by notifications from the broker. Wait until every notification
                // caused by the subscriptions made before this command has arrived.
                let h = svc.client().clone();
                let mut ok = blocked(&info, "Handle::sync_broker", true, h.sync_broker()).await.is_ok();
                for (event, unique) in events {
                    ok &= svc.emit(event, vec![unique, event as u64]).is_ok();
                }
                ok &= blocked(&info, "Handle::sync_broker", true, h.sync_broker()).await.is_ok();
                let _ = done.send(ok && !gone.get());
            }
            Ev::Cmd(Some(SvcCmd::Destroy)) => {
                gone.set(true);
                let r = blocked(&info, "Service::destroy", true, svc.destroy()).await;
                if let Err(e) = r {
                    ctx.check_err("Service::destroy", &e);
                }
            }
            Ev::Cmd(Some(SvcCmd::Drop)) | Ev::Cmd(None) => {
                drop(held);
                drop(svc);
                return;
            }
            Ev::Call(None) => {
                // The service was destroyed or the client stopped.
                drop(held);
                return;
            }
            Ev::Call(Some(call)) => {
                ctx.probe("call-served");
                // Arguments: [id, policy] or [id, policy, <arbitrary value to echo>].
                let args = call.deserialize_as_value();
                let parsed = match &args {
                    Ok(aldrin_core::Value::Vec(v)) if v.len() == 2 || v.len() == 3 => match (&v[0], &v[1]) {
                        (aldrin_core::Value::U64(id), aldrin_core::Value::U64(policy)) => Some((*id, *policy, v.get(2).cloned())),
                        _ => None,
                    },
                    _ => None,
                };
                let (id, policy, echo) = match parsed {
                    Some(x) => x,
                    None => {
                        ctx.log.borrow_mut().violate(
                            "call.args-corrupted",
                            &[Prop::C06, Prop::C12],
                            format!("client{}: a call arrived with arguments that do not decode", ctx.client),
                        );
                        let _ = call.invalid_args();
                        continue;
                    }
                };
                let r = match policy % 8 {
                    0..=2 if echo.is_some() => {
                        ctx.probe("call-echo-served");
                        call.ok(aldrin_core::Value::Vec(vec![aldrin_core::Value::U64(call_result(id)), echo.unwrap()]))
                    }
                    0..=2 => call.ok(call_result(id)),
                    3 => call.err(call_result(id)),
                    4 => call.abort(),
                    5 => {
                        drop(call);
                        Ok(())
                    }
                    6 => call.invalid_function(),
                    _ => {
                        // Hold the promise: a sub-task waits for the caller's abort.
                        let mut promise = call.into_promise();
                        ctx.probe("promise-held-until-teardown");
                        let c2 = ctx.clone();
                        let holder: Rc<RefCell<Option<Rc<TaskInfo>>>> = Rc::new(RefCell::new(None));
                        let h2 = holder.clone();
                        let ti = ctx.spawn(format!("client{}-held-promise", ctx.client), false, async move {
                            let info = h2.borrow().clone().unwrap();
                            blocked(&info, "Promise::aborted", false, promise.aborted()).await;
                            c2.probe("held-promise-aborted");
                            drop(promise);
                        });
                        *holder.borrow_mut() = Some(ti);
                        Ok(())
                    }
                };
                if let Err(e) = r {
                    ctx.check_err("Promise reply", &e);
                }
            }
        }
    }
}

pub async fn producer_task(ctx: Ctx, mut sender: Sender, tag: u64, n: u32, close_mode: u32, must: bool, info: Rc<TaskInfo>) {
    ctx.log.borrow_mut().produced.entry(tag).or_default();
    for i in 0..n as u64 {
        let item = (tag << 20) | i;
        // A slow producer: the consumer keeps up, so credit is announced while the sender still has
        // some left.
        for _ in 0..((close_mode >> 5) % 4) * 2 {
            yield_once().await;
        }
        if (close_mode >> 4) % 2 == 1 {
            // Applications watch for the receiver going away while they produce (e.g. in a select).
            let closed = std::future::poll_fn(|cx| Poll::Ready(sender.poll_receiver_closed(cx).is_ready())).await;
            if closed {
                ctx.probe("receiver-closed-noticed-by-sender");
            } else {
                ctx.probe("receiver-closed-polled-while-open");
            }
        }
        let r = if (close_mode >> 7) % 2 == 1 {
            // The non-async half of the API: wait for credit, then start the send.
            match blocked(&info, "Sender::send_ready", must, sender.send_ready()).await {
                Ok(()) => sender.start_send_item(item),
                Err(e) => Err(e),
            }
        } else {
            blocked(&info, "Sender::send_item", must, sender.send_item(item)).await
        };
        match r {
            Ok(()) => {
                ctx.log.borrow_mut().produced.get_mut(&tag).unwrap().0.push(item);
            }
            Err(e) => {
                // The receiver may have been closed by its program; then sending legitimately fails.
                ctx.check_err("Sender::send_item", &e);
                ctx.probe("send-refused");
                return;
            }
        }
    }
    match close_mode % 3 {
        0 => {
            let r = blocked(&info, "Sender::close", true, sender.close()).await;
            if let Err(e) = r {
                ctx.check_err("Sender::close", &e);
            }
        }
        _ => drop(sender),
    }
    ctx.log.borrow_mut().produced.get_mut(&tag).unwrap().1 = true;
}

pub async fn consumer_task(ctx: Ctx, mut receiver: Receiver, tag: u64, stop_after: u32, must: bool, info: Rc<TaskInfo>) {
    ctx.log.borrow_mut().consumed.entry(tag).or_default();
    let mut got = 0;
    loop {
        if stop_after > 0 && got >= stop_after {
            // Close early on purpose.
            let r = blocked(&info, "Receiver::close", true, receiver.close()).await;
            if let Err(e) = r {
                ctx.check_err("Receiver::close", &e);
            }
            ctx.probe("receiver-closed-early");
            return;
        }
        let r = blocked(&info, "Receiver::next_item", must, receiver.next_item::<u64>()).await;
        match r {
            Ok(Some(item)) => {
                got += 1;
                ctx.log.borrow_mut().consumed.get_mut(&tag).unwrap().0.push(item);
            }
            Ok(None) => {
                ctx.log.borrow_mut().consumed.get_mut(&tag).unwrap().1 = true;
                return;
            }
            Err(e) => {
                ctx.log.borrow_mut().violate(
                    "channel.item-corrupted",
                    &[Prop::C05, Prop::C06],
                    format!("client{}: Receiver::next_item failed: {e:?}", ctx.client),
                );
                return;
            }
        }
    }
}

/// Interprets one application script.
pub async fn app_task(ctx: Ctx, script: Vec<AOp>, info: Rc<TaskInfo>) {
    for op in script {
        run_op(&ctx, op, &info).await;
        ctx.log.borrow_mut().ops_done += 1;
    }
}

async fn run_op(ctx: &Ctx, op: AOp, info: &Rc<TaskInfo>) {
    let Some(handle) = ctx.handle() else {
        return;
    };
    {
        let mut log = ctx.log.borrow_mut();
        log.thash.u64(0xa900 + ctx.client as u64);
        log.thash.u64(op.k as u8 as u64);
        let c = ctx.client;
        log.tr(|| format!("client{c} app op {:?} {} {} {} {}", op.k, op.a, op.b, op.c, op.d));
    }
    match op.k {
        AKind::Yield => {
            for _ in 0..(op.a % 8) {
                yield_once().await;
            }
        }

        AKind::CreateObject => {
            let r = blocked(info, "Handle::create_object", true, handle.create_object(obj_uuid(op.a))).await;
            match r {
                Ok(obj) => {
                    // Any object can serve as a lifetime scope; these ids come from the small UUID
                    // pool, so a lifetime may be bound to an incarnation that is already gone while
                    // the same UUID is alive again.
                    if op.b % 2 == 0 {
                        ctx.bb.borrow_mut().lifetimes.push(obj.lifetime_id());
                    }
                    ctx.res.borrow_mut().objects.push(Some(obj))
                }
                Err(e) => ctx.check_err("create_object", &e),
            }
        }
        AKind::DestroyObject => {
            let taken = slot(&mut ctx.res.borrow_mut().objects, op.a);
            if let Some((i, obj)) = taken {
                let r = blocked(info, "Object::destroy", true, obj.destroy()).await;
                if let Err(e) = r {
                    ctx.check_err("Object::destroy", &e);
                }
                if op.b % 2 == 0 {
                    ctx.res.borrow_mut().objects[i] = Some(obj);
                    ctx.probe("object-kept-after-destroy");
                }
            }
        }
        AKind::DropObject => {
            let taken = slot(&mut ctx.res.borrow_mut().objects, op.a);
            drop(taken);
        }

        AKind::CreateService => {
            let taken = slot(&mut ctx.res.borrow_mut().objects, op.a);
            if let Some((i, obj)) = taken {
                let sinfo = ServiceInfo::new(op.c % 4);
                let r = blocked(info, "Object::create_service", true, obj.create_service(svc_uuid(op.b), sinfo)).await;
                ctx.res.borrow_mut().objects[i] = Some(obj);
                match r {
                    Ok(svc) => {
                        let id = svc.id();
                        let (tx, rx) = mpsc::unbounded();
                        ctx.res.borrow_mut().services.push(SvcCtl { id, cmd: tx.clone() });
                        ctx.bb.borrow_mut().services.push(id);
                        ctx.bb.borrow_mut().service_cmds.push((id, tx));
                        let c2 = ctx.clone();
                        let name = format!("client{}-server", ctx.client);
                        let holder: Rc<RefCell<Option<Rc<TaskInfo>>>> = Rc::new(RefCell::new(None));
                        let h2 = holder.clone();
                        let ti = ctx.spawn(name, false, async move {
                            let info = h2.borrow().clone().unwrap();
                            server_task(c2, svc, rx, info).await
                        });
                        *holder.borrow_mut() = Some(ti);
                    }
                    Err(e) => ctx.check_err("create_service", &e),
                }
            }
        }
        AKind::SvcEmit | AKind::SvcDestroy | AKind::SvcDrop => {
            let res = ctx.res.borrow();
            if !res.services.is_empty() {
                let s = &res.services[op.a as usize % res.services.len()];
                let cmd = match op.k {
                    AKind::SvcEmit => SvcCmd::Emit(op.b % 3, ctx.unique()),
                    AKind::SvcDestroy => SvcCmd::Destroy,
                    _ => SvcCmd::Drop,
                };
                let _ = s.cmd.unbounded_send(cmd);
            }
        }

        AKind::CreateProxy => {
            let id = {
                let bb = ctx.bb.borrow();
                if bb.services.is_empty() {
                    None
                } else {
                    Some(bb.services[op.a as usize % bb.services.len()])
                }
            };
            if let Some(id) = id {
                let r = blocked(info, "Handle::create_proxy", true, handle.create_proxy(id)).await;
                match r {
                    Ok(p) => ctx.res.borrow_mut().proxies.push(Some(p)),
                    Err(e) => ctx.check_err("create_proxy", &e),
                }
            }
        }
        AKind::DropProxy => {
            let taken = slot(&mut ctx.res.borrow_mut().proxies, op.a);
            if taken.is_some() {
                ctx.probe("proxy-dropped");
            }
            drop(taken);
        }
        AKind::Subscribe | AKind::Unsubscribe | AKind::SubscribeAll | AKind::UnsubscribeAll => {
            let taken = slot(&mut ctx.res.borrow_mut().proxies, op.a);
            if let Some((i, p)) = taken {
                let r = match op.k {
                    AKind::Subscribe => blocked(info, "Proxy::subscribe", true, p.subscribe(op.b % 3)).await,
                    AKind::Unsubscribe => blocked(info, "Proxy::unsubscribe", true, p.unsubscribe(op.b % 3)).await,
                    AKind::SubscribeAll => blocked(info, "Proxy::subscribe_all", true, p.subscribe_all()).await,
                    _ => blocked(info, "Proxy::unsubscribe_all", true, p.unsubscribe_all()).await,
                };
                if let Err(e) = r {
                    ctx.check_err("proxy subscription", &e);
                }
                ctx.res.borrow_mut().proxies[i] = Some(p);
            }
        }
        AKind::DrainEvents => {
            let taken = slot(&mut ctx.res.borrow_mut().proxies, op.a);
            if let Some((i, mut p)) = taken {
                while let Some(Some(ev)) = try_next(&mut p).await {
                    ctx.probe("event-received");
                    let ok = matches!(ev.deserialize::<Vec<u64>>(), Ok(v) if v.len() == 2 && v[1] == ev.id() as u64);
                    if !ok || ev.service() != p.id() {
                        ctx.log.borrow_mut().violate(
                            "event.corrupted",
                            &[Prop::C06, Prop::C04],
                            format!("client{}: proxy of {:?} received an event it cannot attribute (id {}, service {:?})", ctx.client, p.id(), ev.id(), ev.service()),
                        );
                    }
                }
                ctx.res.borrow_mut().proxies[i] = Some(p);
            }
        }

        AKind::Call => {
            let taken = slot(&mut ctx.res.borrow_mut().proxies, op.a);
            if let Some((i, p)) = taken {
                let id = ctx.unique();
                let policy = (op.b % 8) as u64;
                let flag = Rc::new(Cell::new(false));
                ctx.bb.borrow_mut().call_abort_flags.insert(id, (flag.clone(), ctx.minor));
                // A quarter of the calls carry an arbitrary value tree that a successful reply echoes
                // (payload interop between clients of different versions, C12).
                let echo = if (op.b >> 3) % 4 == 0 {
                    match crate::wire_ops::rich_value(id, op.b >> 5) {
                        aldrin_core::Value::Vec(mut v) => v.pop(),
                        _ => None,
                    }
                } else {
                    None
                };
                let pending = match &echo {
                    Some(tree) => p.call(
                        op.c % 5,
                        aldrin_core::Value::Vec(vec![aldrin_core::Value::U64(id), aldrin_core::Value::U64(policy), tree.clone()]),
                        None,
                    ),
                    None => p.call(op.c % 5, vec![id, policy], None),
                };
                ctx.res.borrow_mut().proxies[i] = Some(p);
                match op.d % 6 {
                    0 => {
                        drop(pending);
                        flag.set(true);
                        ctx.probe("call-dropped-at-once");
                    }
                    1 => {
                        let r = cancelling(info, pending, 1 + (op.d >> 4) % 3).await;
                        if r.is_none() {
                            flag.set(true);
                            ctx.probe("call-cancelled-mid-flight");
                        } else if let Some(Ok(reply)) = r {
                            check_reply(ctx, id, policy, reply, echo.as_ref());
                        }
                    }
                    _ => {
                        let must = policy % 8 != 7;
                        let r = blocked(info, "PendingReply", must, pending).await;
                        match r {
                            Ok(reply) => check_reply(ctx, id, policy, reply, echo.as_ref()),
                            Err(Error::CallAborted) | Err(Error::InvalidService) | Err(Error::InvalidFunction(_)) => {
                                ctx.probe("call-refused-or-aborted");
                            }
                            Err(e) => ctx.check_err("call", &e),
                        }
                    }
                }
            }
        }

        AKind::SyncClient => {
            let r = blocked(info, "Handle::sync_client", true, handle.sync_client()).await;
            if let Err(e) = r {
                ctx.check_err("sync_client", &e);
            }
        }
        AKind::SyncBroker => {
            let r = blocked(info, "Handle::sync_broker", true, handle.sync_broker()).await;
            if let Err(e) = r {
                ctx.check_err("sync_broker", &e);
            }
        }

        AKind::HandleClone => ctx.res.borrow_mut().extra_handles.push(handle.clone()),
        AKind::HandleDrop => {
            ctx.res.borrow_mut().extra_handles.pop();
        }
        AKind::Shutdown => {
            ctx.client_faulted.set(true);
            handle.shutdown();
        }

        AKind::IntroRegister | AKind::IntroQuery => crate::api_intro::run_intro_op(ctx, op, info, &handle).await,

        _ => crate::api_app2::run_op2(ctx, op, info, handle).await,
    }
}

fn check_reply(ctx: &Ctx, id: u64, policy: u64, reply: aldrin::low_level::Reply, echo: Option<&aldrin_core::Value>) {
    let mut log = ctx.log.borrow_mut();
    log.calls_checked += 1;
    if let (Some(tree), true) = (echo, policy % 8 <= 2) {
        let got = reply.deserialize_as_value();
        let want = aldrin_core::Value::Vec(vec![aldrin_core::Value::U64(call_result(id)), tree.clone()]);
        log.probe("call-echo-checked");
        if !matches!(&got, Ok(Ok(v)) if *v == want) {
            log.violate(
                "call.wrong-value",
                &[Prop::C06, Prop::C02, Prop::C12],
                format!("client{}: call {id} (policy {policy}) returned {got:?}, expected Ok({want:?})", ctx.client),
            );
        }
        return;
    }
    let got: Result<Result<u64, u64>, _> = reply.deserialize::<u64, u64>();
    let want_ok = policy % 8 <= 2;
    let ok = match got {
        Ok(Ok(v)) => want_ok && v == call_result(id),
        Ok(Err(v)) => policy % 8 == 3 && v == call_result(id),
        Err(_) => false,
    };
    if !ok {
        log.violate(
            "call.wrong-value",
            &[Prop::C06, Prop::C02],
            format!("client{}: call {id} (policy {policy}) returned {got:?}, expected {}", ctx.client, call_result(id)),
        );
    }
}

pub fn uuids_of(spec: &DiscSpec) -> Vec<(Option<ObjectUuid>, Vec<ServiceUuid>)> {
    spec.entries
        .iter()
        .map(|(o, s)| (o.map(obj_uuid), s.iter().map(|i| svc_uuid(*i)).collect()))
        .collect()
}

pub fn scope_of(b: u32) -> BusListenerScope {
    match b % 3 {
        0 => BusListenerScope::Current,
        1 => BusListenerScope::New,
        _ => BusListenerScope::All,
    }
}

pub fn filter_of(i: u32) -> aldrin_core::BusListenerFilter {
    filter(i)
}
