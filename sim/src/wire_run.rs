// Included into wire.rs: the run loop, actor actions, tap processing, teardown and final checks.

const BARRIER_TAG: u32 = 0xBA;

impl World {
    fn actor_can_step(&self, i: usize) -> bool {
        let a = &self.actors[i];
        if a.stall_until > self.stats.steps {
            return false;
        }
        match a.phase {
            Phase::NotStarted => {
                a.plan.start_after == 0
                    || self.actors.iter().filter(|x| x.phase == Phase::Ended).count() >= a.plan.start_after as usize
            }
            Phase::Connected => {
                if a.pc >= a.script.len() {
                    return false;
                }
                let pipe = a.pipe.as_ref().unwrap();
                if pipe.peer_closed(Side::B) {
                    return false;
                }
                let op = a.script[a.pc];
                if op.k.is_message() && a.plan.window > 0 && a.known.pending.len() >= a.plan.window {
                    return false;
                }
                if op.k == OpKind::WaitService {
                    return !self.bb.borrow().services.is_empty();
                }
                if op.k == OpKind::WaitSubscribed {
                    return a.known.subscribed_notifications > 0;
                }
                if matches!(op.k, OpKind::EndDropTask | OpKind::EndBrokerShutdownConn) {
                    // Only once the Connection object exists (its id is then known).
                    return a.shared.borrow().raw.is_some();
                }
                !op.k.is_message() || pipe.can_push(Side::B)
            }
            _ => false,
        }
    }

    fn actor_can_recv(&self, i: usize) -> bool {
        let a = &self.actors[i];
        if a.stall_until > self.stats.steps {
            return false;
        }
        matches!(a.phase, Phase::Handshake | Phase::Connected | Phase::Closing)
            && a.pipe.as_ref().is_some_and(|p| p.has_inbound(Side::B))
    }

    fn spawn_aux(&mut self, name: &str, fut: impl std::future::Future<Output = ()> + 'static) {
        let id = self.exec.spawn(name, fut);
        self.aux_tasks.push(id);
    }

    fn actor_step(&mut self, i: usize) {
        if self.actors[i].phase == Phase::NotStarted {
            self.start_actor(i);
            return;
        }

        let op = self.actors[i].script[self.actors[i].pc];
        self.actors[i].pc += 1;

        if op.k.is_message() {
            let bb = self.bb.clone();
            let a = &mut self.actors[i];
            let mut r = Resolver {
                actor: i,
                version: a.version,
                known: &mut a.known,
                bb: &bb,
                allow_garbage: a.plan.abuser || a.plan.garbage,
                conformant: a.plan.conformant,
                abuser: a.plan.abuser,
            };
            let msg = r.resolve(op);
            if op.k == OpKind::Sync && a.barrier_pc == Some(a.pc - 1) {
                if let Message::Sync(s) = &msg {
                    a.barrier = Some(s.serial);
                }
            }
            a.sent += 1;
            self.stats.msgs_sent += 1;
            self.thash.u64(0x5e00 + i as u64);
            self.thash.u64(msg.kind() as u8 as u64);
            self.tr(|| format!("actor{i} -> {}", short(&msg)));
            self.actors[i].pipe.as_ref().unwrap().push(Side::B, msg);
            return;
        }

        self.tr(|| format!("actor{i} op {:?}", op));
        match op.k {
            OpKind::Stall => {
                self.actors[i].stall_until = self.stats.steps + 1 + (op.a % 60) as usize;
                self.fault("stall");
            }
            OpKind::TakeStatistics => {
                let mut handle = self.handle.clone();
                let results = self.stats_results.clone();
                self.spawn_aux("take-statistics", async move {
                    if let Ok(s) = handle.take_statistics().await {
                        results.borrow_mut().push([
                            s.num_connections(),
                            s.num_objects(),
                            s.num_services(),
                            s.num_channels(),
                            s.num_bus_listeners(),
                        ]);
                    }
                });
            }
            OpKind::EndShutdown => {
                let a = &mut self.actors[i];
                a.pipe.as_ref().unwrap().push(Side::B, Message::Shutdown(Shutdown));
                a.sent_shutdown = true;
                a.lossy_end = true;
                a.phase = Phase::Closing;
                if self.actors[i].barrier_pc.is_none() {
                    self.fault("clean_shutdown");
                }
            }
            OpKind::EndTransportError => {
                let a = &mut self.actors[i];
                a.pipe.as_ref().unwrap().fail_now(Side::A);
                a.lossy_end = true;
                a.phase = Phase::Ended;
                self.fault("transport_error");
            }
            OpKind::EndEof => {
                let a = &mut self.actors[i];
                a.pipe.as_ref().unwrap().close(Side::B);
                a.lossy_end = true;
                a.phase = Phase::Ended;
                self.fault("eof");
            }
            OpKind::EndDropTask => {
                let task = self.actors[i].task.unwrap();
                if let Err(info) = self.exec.drop_task(task) {
                    self.on_panic("dropping a Connection task", info);
                }
                let a = &mut self.actors[i];
                a.task_dropped = true;
                a.lossy_end = true;
                a.phase = Phase::Ended;
                let raw = a.shared.borrow().raw;
                if let Some(raw) = raw {
                    if self.resolve_actor(raw) == Some(i) {
                        self.model.receiver_dropped(raw);
                    }
                }
                self.fault("task_dropped");
            }
            OpKind::EndBrokerShutdownConn => {
                let ch = self.actors[i].shared.borrow().handle.clone();
                if let Some(ch) = ch {
                    let mut handle = self.handle.clone();
                    self.spawn_aux("shutdown-connection", async move {
                        let _ = handle.shutdown_connection(&ch).await;
                    });
                    self.fault("broker_shutdown_conn");
                }
            }
            _ => {}
        }

        if op.k.is_ending() && op.k != OpKind::EndBrokerShutdownConn {
            let a = &mut self.actors[i];
            a.pc = a.script.len();
        }
    }

    fn actor_recv(&mut self, i: usize) {
        let Some(msg) = self.actors[i].pipe.as_ref().unwrap().pop(Side::B) else {
            return;
        };
        self.stats.msgs_received += 1;
        self.thash.u64(0xac00 + i as u64);
        self.thash.u64(msg.kind() as u8 as u64);
        self.tr(|| format!("actor{i} <- {}", short(&msg)));

        if self.actors[i].phase == Phase::Handshake {
            self.handshake_reply(i, msg);
            return;
        }

        if let Message::Shutdown(_) = msg {
            let a = &mut self.actors[i];
            if a.got_shutdown {
                let v = Violation::new(
                    "stream.shutdown-twice",
                    &[Prop::C09],
                    format!("actor{i} received Shutdown twice"),
                );
                self.violate(v);
                return;
            }
            a.got_shutdown = true;
            if !a.sent_shutdown {
                a.pipe.as_ref().unwrap().push(Side::B, Message::Shutdown(Shutdown));
                a.sent_shutdown = true;
            }
            a.phase = Phase::Closing;
            return;
        }

        // C12 monitors on everything the broker sends.
        let minor = self.actors[i].version.minor();
        if min_version_of_kind(&msg) > minor {
            let v = Violation::new(
                "version.kind-too-new",
                &[Prop::C12],
                format!("actor{i} (1.{minor}) was sent {}", short(&msg)),
            );
            self.violate(v);
        }
        if minor < 20 {
            if let Some(v) = msg.value() {
                if contains_v2_encoding(v) {
                    let v = Violation::new(
                        "version.v2-encoding-to-old-peer",
                        &[Prop::C12],
                        format!("actor{i} (1.{minor}) was sent a 1.20 encoding in {}", short(&msg)),
                    );
                    self.violate(v);
                }
            }
        }

        let a = &mut self.actors[i];
        if a.got_shutdown {
            let v = Violation::new(
                "stream.after-shutdown",
                &[Prop::C09],
                format!("actor{i} received {} after Shutdown", short(&msg)),
            );
            self.violate(v);
            return;
        }
        if let (Some(b), Message::SyncReply(r)) = (a.barrier, &msg) {
            if r.serial == b {
                a.barrier_seen = true;
            }
        }
        a.known.observe(&msg, &self.bb);
        a.observed.push(msg);
    }

    fn handshake_reply(&mut self, i: usize, msg: Message) {
        let plan = self.actors[i].plan.clone();
        // The rule as the property states it.
        let expect_ok = if plan.legacy {
            plan.minor == 14
        } else {
            plan.major == 1 && plan.minor >= 14
        };
        let expect_minor = plan.minor.min(20);

        let got: Result<Option<u32>, String> = match (&msg, plan.legacy) {
            (Message::ConnectReply(ConnectReply::Ok(_)), true) => Ok(Some(14)),
            (Message::ConnectReply(ConnectReply::IncompatibleVersion(_)), true) => Ok(None),
            (Message::ConnectReply2(r), false) => match r.result {
                ConnectResult::Ok(minor) => Ok(Some(minor)),
                ConnectResult::IncompatibleVersion => Ok(None),
                ConnectResult::Rejected => Err("rejected".into()),
            },
            _ => Err(format!("unexpected handshake reply {}", short(&msg))),
        };

        self.stats
            .probes
            .entry(if expect_ok { "handshake-ok" } else { "handshake-incompatible" })
            .and_modify(|x| *x += 1)
            .or_insert(1);

        match got {
            Ok(Some(minor)) if expect_ok && minor == expect_minor => {
                let a = &mut self.actors[i];
                a.version = ProtocolVersion::new(1, minor);
                a.phase = Phase::Connected;
                a.handshake_ok = Some(true);
            }
            Ok(None) if !expect_ok => {
                let a = &mut self.actors[i];
                a.phase = Phase::Ended;
                a.handshake_ok = Some(false);
            }
            other => {
                self.actors[i].phase = Phase::Ended;
                let v = Violation::new(
                    "handshake.outcome",
                    &[Prop::C12],
                    format!(
                        "actor{i} requested {}{}.{}: expected {}, got {:?}",
                        if plan.legacy { "legacy " } else { "" },
                        plan.major,
                        plan.minor,
                        if expect_ok {
                            format!("ok with 1.{expect_minor}")
                        } else {
                            "incompatible version".to_string()
                        },
                        other
                    ),
                );
                self.violate(v);
            }
        }
    }

    // -- tap ------------------------------------------------------------------------------------

    fn process_tap(&mut self) {
        let events: Vec<TapEvent> = std::mem::take(&mut *self.tap.borrow_mut());
        for ev in events {
            // After the first violation the model and the broker may have diverged; anything
            // reported from later steps of the same poll would be a secondary effect.
            if !self.violations.is_empty() {
                break;
            }
            match ev {
                TapEvent::Input(input) => {
                    if self.pending_input.is_some() {
                        self.harness_error = Some("tap: two inputs without a step".into());
                    }
                    self.pending_input = Some(input);
                }
                TapEvent::Step(snap) => {
                    let Some(input) = self.pending_input.take() else {
                        self.harness_error = Some("tap: step without input".into());
                        return;
                    };
                    self.broker_step(input, snap);
                }
                TapEvent::Exit(snap) => {
                    self.broker_exited = true;
                    self.last_snapshot = Some(snap);
                }
            }
        }
    }

    /// Actor behind a registered connection id.
    fn resolve_actor(&mut self, raw: usize) -> Option<usize> {
        if let Some(a) = self.raw_to_actor.get(&raw) {
            return Some(*a);
        }
        if !self.unmapped.contains(&raw) {
            return None;
        }
        let found = self
            .actors
            .iter()
            .position(|a| a.shared.borrow().raw == Some(raw) && a.removed.is_none() && !a.mapped)?;
        self.actors[found].mapped = true;
        self.raw_to_actor.insert(raw, found);
        self.unmapped.remove(&raw);
        Some(found)
    }

    fn broker_step(&mut self, input: TapInput, snap: Box<BrokerSnapshot>) {
        self.stats.broker_steps += 1;

        let in_conn = match &input {
            TapInput::NewConnection { conn, .. }
            | TapInput::ConnectionShutdown { conn }
            | TapInput::Message { conn, .. }
            | TapInput::ShutdownConnection { conn } => Some(*conn),
            _ => None,
        };

        // Map a new connection to its actor (the id may only become known a little later, when
        // the connecting task resumes; then the mapping is resolved lazily).
        let mut new_doomed = None;
        let mut check_version = None;
        if let TapInput::NewConnection { conn, version } = &input {
            if !self.seen_raw.insert(*conn) {
                *self.stats.probes.entry("connection-id-reused").or_insert(0) += 1;
            }
            self.raw_to_actor.remove(conn);
            self.unmapped.insert(*conn);
            if let Some(i) = self.resolve_actor(*conn) {
                if self.actors[i].task_dropped {
                    new_doomed = Some(*conn);
                }
            }
            check_version = Some((*conn, *version));
        }
        // Everything referenced below must be resolvable now.
        let unmapped: Vec<usize> = self.unmapped.iter().copied().collect();
        for raw in unmapped {
            self.resolve_actor(raw);
        }
        if let Some((conn, version)) = check_version {
            if let Some(i) = self.raw_to_actor.get(&conn).copied() {
                if self.actors[i].handshake_ok == Some(true) && self.actors[i].version != version {
                    let v = Violation::new(
                        "handshake.version-registered",
                        &[Prop::C12],
                        format!(
                            "actor{i} negotiated {} but the broker registered {}",
                            self.actors[i].version, version
                        ),
                    );
                    self.violate(v);
                }
            }
        }

        let actor_of = |w: &World, c: ConnId| w.raw_to_actor.get(&c).copied();
        let in_actor = in_conn.and_then(|c| actor_of(self, c));

        let out = self.model.step(&input, &snap);
        if let Some(c) = new_doomed {
            self.model.receiver_dropped(c);
        }

        self.sig.u64(in_actor.map(|a| a as u64 + 1).unwrap_or(0));
        self.sig.str(&out.class);
        self.thash.str(&out.class);
        for p in &out.probes {
            *self.stats.probes.entry(p).or_insert(0) += 1;
        }
        let bs = self.stats.broker_steps;
        self.tr(|| {
            format!(
                "broker step #{}: from {:?} {} -> {} msgs, removed {:?}",
                bs,
                in_actor.map(|a| format!("actor{a}")),
                out.class,
                out.expects.len(),
                out.removed
            )
        });

        // Expectations per actor.
        let mut groups: BTreeMap<usize, Vec<(Message, Option<ProtocolVersion>)>> = BTreeMap::new();
        for e in out.expects {
            if let Message::Shutdown(_) = e.msg {
                continue;
            }
            if let Some(a) = actor_of(self, e.conn) {
                if e.msg.value().is_some()
                    && e.from.map(|v| v.minor() >= 20).unwrap_or(true)
                    && self.actors[a].version.minor() < 20
                {
                    *self.stats.probes.entry("cross-epoch-payload").or_insert(0) += 1;
                }
                groups.entry(a).or_default().push((e.msg, e.from));
            }
        }
        let removed_actors: BTreeSet<usize> = out
            .removed
            .iter()
            .filter_map(|(c, _)| actor_of(self, *c))
            .collect();
        for (a, msgs) in groups {
            self.actors[a].expected.push(Group {
                msgs,
                partial: removed_actors.contains(&a),
            });
        }
        for (c, send_shutdown) in &out.removed {
            if self.unmapped.remove(c) {
                self.removed_unmapped.push((*c, *send_shutdown));
            }
            if let Some(a) = self.raw_to_actor.remove(c) {
                if self.release_handles {
                    // Let the connection id go back to the broker's pool (the harness holds a
                    // ConnectionHandle per actor, which would pin the id for the whole run).
                    self.actors[a].shared.borrow_mut().handle = None;
                }
                self.actors[a].removed = Some(*send_shutdown);
                if !*send_shutdown {
                    self.actors[a].lossy_end = true;
                }
            }
        }

        let mut vs = out.violations;
        self.model.compare(&snap, !out.removed.is_empty(), &mut vs);
        // A subscription table that diverges in the step of a subscribe request means that request
        // had the wrong outcome: "queries about a service (.., subscribe, ..) succeed exactly while
        // it is live" is C03's clause.
        if matches!(
            &input,
            TapInput::Message { msg: Message::SubscribeEvent(_) | Message::SubscribeAllEvents(_) | Message::SubscribeService(_), .. }
        ) {
            for v in vs.iter_mut() {
                if (v.rule == "state.subscriptions" || v.rule == "state.mirror.subscriptions") && !v.props.contains(&Prop::C03) {
                    v.props.push(Prop::C03);
                }
            }
        }
        snapshot_consistency(&snap, &mut vs);
        if let TapInput::TakeStatistics = input {
            self.stats_expected.push([
                self.model.conns.len(),
                self.model.objs.len(),
                self.model.svcs.len(),
                self.model.channels.len(),
                self.model.listeners.len(),
            ]);
        }
        for v in vs {
            self.violate(v);
        }
        self.last_snapshot = Some(snap);
    }

    // -- teardown -------------------------------------------------------------------------------

    /// Called at quiescence; returns false when the run is over.
    fn advance_teardown(&mut self, stage: &mut u8, teardown: Teardown) -> bool {
        *stage += 1;
        self.tr(|| format!("quiescent; teardown stage {}", *stage));
        match *stage {
            1 => {
                for a in &mut self.actors {
                    if a.phase == Phase::Connected && !a.sent_shutdown {
                        a.script.truncate(a.pc);
                        a.barrier_pc = Some(a.script.len());
                        a.script.push(Op::new(OpKind::Sync, 0, 0, 0, BARRIER_TAG));
                    }
                }
                true
            }
            2 => {
                match teardown {
                    Teardown::Clean => {
                        for a in &mut self.actors {
                            if a.phase == Phase::Connected && !a.sent_shutdown {
                                a.script.truncate(a.pc);
                                a.script.push(Op::new(OpKind::EndShutdown, 0, 0, 0, BARRIER_TAG));
                            }
                        }
                    }
                    Teardown::BrokerShutdown => {
                        let mut handle = self.handle.clone();
                        self.spawn_aux("broker-shutdown", async move {
                            handle.shutdown().await;
                        });
                        *self.stats.faults.entry("broker_shutdown").or_insert(0) += 1;
                    }
                }
                true
            }
            3 => {
                // Connections whose task was dropped and that the broker never tried to talk to
                // again are still registered (DESIGN.md O3); remove them through the public API.
                let regs: Vec<(usize, usize)> =
                    self.raw_to_actor.iter().map(|(r, a)| (*r, *a)).collect();
                for (raw, a) in regs {
                    let ch = self.actors[a].shared.borrow().handle.clone();
                    if self.actors[a].task_dropped {
                        self.stats.zombies += 1;
                    } else if !self.broker_exited {
                        let v = Violation::new(
                            "teardown.still-registered",
                            &[Prop::C09],
                            format!("connection {raw} (actor{a}) is still registered after it ended"),
                        );
                        self.violate(v);
                    }
                    if let Some(ch) = ch {
                        let mut handle = self.handle.clone();
                        self.spawn_aux("shutdown-zombie", async move {
                            let _ = handle.shutdown_connection(&ch).await;
                        });
                    }
                }
                true
            }
            4 => {
                if teardown == Teardown::Clean {
                    let mut handle = self.handle.clone();
                    self.spawn_aux("shutdown-idle", async move {
                        handle.shutdown_idle().await;
                    });
                }
                true
            }
            _ => false,
        }
    }

    /// Returns true when a violation was recorded.
    fn probe_lost_wakeups(&mut self) -> bool {
        let mut parked = Vec::new();
        self.exec.parked_tasks(&mut parked);
        let mut ready = Vec::new();
        for t in parked {
            let bsteps = self.stats.broker_steps;
            let outcome = self.exec.poll(t);
            self.process_tap();
            self.exec.ready_tasks(&mut ready);
            let name = self.exec.name(t).to_string();
            let progressed = match outcome {
                PollOutcome::Panicked(info) => {
                    self.on_panic(&format!("task '{name}' (poll at quiescence)"), info);
                    return true;
                }
                PollOutcome::Done => true,
                PollOutcome::Pending => {
                    !ready.is_empty()
                        || self.stats.broker_steps != bsteps
                        || (0..self.actors.len()).any(|i| self.actor_can_recv(i))
                }
            };
            if progressed {
                let v = Violation::new(
                    "liveness.lost-wakeup",
                    &[Prop::C09, Prop::C11, Prop::C06],
                    format!("at quiescence task '{name}' was parked, yet polling it once more made progress: the event it waited for had happened without waking it"),
                );
                self.violate(v);
                return true;
            }
        }
        *self.stats.probes.entry("lost-wakeup-probe-evaluated").or_insert(0) += 1;
        false
    }

    fn match_stream(&self, i: usize) -> Option<Violation> {
        let a = &self.actors[i];
        let obs = &a.observed;
        let mut pos = 0usize;
        let mut missing: Option<&Message> = None;
        let mut barrier_expected = false;

        for g in &a.expected {
            let mut used = vec![false; g.msgs.len()];
            if !g.partial {
                if let Some(b) = a.barrier {
                    if g.msgs.iter().any(|(m, _)| matches!(m, Message::SyncReply(r) if r.serial == b)) {
                        barrier_expected = true;
                    }
                }
            }
            if g.partial {
                while pos < obs.len() {
                    let j = (0..g.msgs.len()).find(|&j| !used[j] && msg_matches(&g.msgs[j].0, &obs[pos]));
                    match j {
                        Some(j) => {
                            used[j] = true;
                            pos += 1;
                        }
                        None => break,
                    }
                }
                continue;
            }
            if missing.is_some() {
                break;
            }
            let take = g.msgs.len().min(obs.len() - pos);
            for k in 0..take {
                let o = &obs[pos + k];
                let j = (0..g.msgs.len()).find(|&j| !used[j] && msg_matches(&g.msgs[j].0, o));
                match j {
                    Some(j) => used[j] = true,
                    None => {
                        let (rule, prop) = stream_rule(o);
                        let exp: Vec<_> = g
                            .msgs
                            .iter()
                            .enumerate()
                            .filter(|(j, _)| !used[*j])
                            .map(|(_, m)| short(&m.0))
                            .collect();
                        let payload = exp.iter().any(|_| true)
                            && g.msgs.iter().any(|(m, _)| m.kind() == o.kind() && m.value().is_some());
                        let mut props = vec![prop];
                        if payload {
                            props.push(Prop::C12);
                        }
                        return Some(Violation::new(
                            rule,
                            &props,
                            format!(
                                "actor{i} (1.{}) received {} at position {}, but the model expects one of [{}]",
                                a.version.minor(),
                                short(o),
                                pos + k,
                                exp.join(" | ")
                            ),
                        ));
                    }
                }
            }
            pos += take;
            if take < g.msgs.len() {
                missing = g
                    .msgs
                    .iter()
                    .enumerate()
                    .find(|(j, _)| !used[*j])
                    .map(|(_, m)| &m.0);
            }
        }

        if pos < obs.len() {
            let o = &obs[pos];
            let (rule, prop) = stream_rule(o);
            return Some(Violation::new(
                rule,
                &[prop],
                format!(
                    "actor{i} received {} at position {pos}, which the model does not expect{}",
                    short(o),
                    missing.map(|m| format!(" (expected {})", short(m))).unwrap_or_default()
                ),
            ));
        }

        if let Some(m) = missing {
            let allowed = a.lossy_end && !(barrier_expected && !a.barrier_seen);
            if !allowed {
                let (rule, prop) = stream_rule(m);
                return Some(Violation::new(
                    rule,
                    &[prop],
                    format!(
                        "actor{i} never received {} (stream ends after {} messages; lossy_end={}, barrier_seen={})",
                        short(m),
                        obs.len(),
                        a.lossy_end,
                        a.barrier_seen
                    ),
                ));
            }
        }
        None
    }

    fn final_checks(&mut self) {
        let rich = self.bb.borrow().rich_payloads;
        if rich > 0 {
            *self.stats.probes.entry("payload-all-kinds").or_insert(0) += rich;
        }
        let deep = self.bb.borrow().deep_payloads;
        if deep > 0 {
            *self.stats.probes.entry("payload-at-depth-limit").or_insert(0) += deep;
        }
        // Every task must have completed.
        let bt = self.broker_task;
        if self.exec.state(bt) != TaskState::Done {
            let v = Violation::new(
                "liveness.broker-run",
                &[Prop::C09, Prop::C06],
                "Broker::run has not returned after teardown".into(),
            );
            self.violate(v);
        }
        for i in 0..self.actors.len() {
            if let Some(t) = self.actors[i].task {
                if self.exec.state(t) == TaskState::Running {
                    let v = Violation::new(
                        "liveness.connection-run",
                        &[Prop::C09],
                        format!("Connection::run of actor{i} has not returned after teardown"),
                    );
                    self.violate(v);
                }
            }
        }
        for t in self.aux_tasks.clone() {
            if self.exec.state(t) == TaskState::Running {
                let v = Violation::new(
                    "liveness.handle-call",
                    &[Prop::C09],
                    format!("broker handle call '{}' never completed", self.exec.name(t)),
                );
                self.violate(v);
            }
        }

        if !self.model.conns.is_empty() || !self.model.is_empty_bus() {
            let v = Violation::new(
                "teardown.residual",
                &[Prop::C09],
                format!(
                    "after all connections ended the bus still holds: conns {:?} objs {} svcs {} calls {} channels {} listeners {}",
                    self.model.conns.keys().collect::<Vec<_>>(),
                    self.model.objs.len(),
                    self.model.svcs.len(),
                    self.model.calls.len(),
                    self.model.channels.len(),
                    self.model.listeners.len()
                ),
            );
            self.violate(v);
        }

        // Statistics delivered through the public API.
        let mut exp = self.stats_expected.clone();
        let results: Vec<[usize; 5]> = self.stats_results.borrow().clone();
        for got in results.iter() {
            match exp.iter().position(|e| e == got) {
                Some(p) => {
                    exp.remove(p);
                }
                None => {
                    let v = Violation::new(
                        "gauge.take-statistics",
                        &[Prop::C09],
                        format!("take_statistics returned gauges {got:?}; true counts at that point: one of {:?}", self.stats_expected),
                    );
                    self.violate(v);
                }
            }
        }

        // A connection that died of a failed payload conversion (finding S3) may have lost
        // anything that was in flight to it, including the Shutdown.
        for a in &mut self.actors {
            let res = a.shared.borrow().run_result.clone();
            if let Some(Err(e)) = res {
                if !(e.contains("Transport") || e.contains("UnexpectedShutdown")) {
                    a.lossy_end = true;
                }
            }
        }
        let mut vs: Vec<Violation> = Vec::new();
        for i in 0..self.actors.len() {
            // Shutdown handshake.
            let a = &self.actors[i];
            if a.removed == Some(true) && !a.lossy_end && a.handshake_ok == Some(true) && !a.got_shutdown {
                let v = Violation::new(
                    "stream.shutdown-missing",
                    &[Prop::C09],
                    format!("actor{i} was shut down by the broker but never received Shutdown"),
                );
                vs.push(v);
            }
            // Connection::run result.
            let res = a.shared.borrow().run_result.clone();
            if let Some(Err(e)) = &res {
                let explained = e.contains("Transport") || e.contains("UnexpectedShutdown");
                if !explained && a.plan.abuser {
                    // Closing an abuser's connection is always an acceptable outcome (C11).
                    continue;
                }
                if !explained {
                    // Was a payload that is not a well-formed value, produced by a 1.20 peer, on its
                    // way to this pre-1.20 connection? (Conversion happens in the receiver's task.)
                    let garbage_in_flight = a.version.minor() < 20
                        && a.expected.iter().flat_map(|g| g.msgs.iter()).any(|(m, from)| {
                            from.map(|v| v.minor() >= 20).unwrap_or(false)
                                && m.value().is_some_and(|v| v.deserialize_as_value().is_err())
                        });
                    let v = Violation::new(
                        "conn.closed-by-conversion-error",
                        // Without an ill-formed payload in flight the converter refused a
                        // well-formed one: that is also evidence against C12.
                        if garbage_in_flight { &[Prop::C11][..] } else { &[Prop::C11, Prop::C12][..] },
                        format!(
                            "Connection::run of actor{i} (1.{}, abuser={}) ended with {e}; {}",
                            a.version.minor(),
                            a.plan.abuser,
                            if garbage_in_flight {
                                "cause: a 1.20 peer's ill-formed payload was forwarded to this pre-1.20 connection"
                            } else {
                                "no ill-formed cross-epoch payload was in flight to it"
                            }
                        ),
                    );
                    vs.push(v);
                    continue;
                }
                if e.contains("UnexpectedShutdown") && a.removed != Some(false) {
                    let v = Violation::new(
                        "conn.unexpected-shutdown",
                        &[Prop::C09, Prop::C11],
                        format!("Connection::run of actor{i} ended with {e} although the broker did not close it"),
                    );
                    vs.push(v);
                }
            }
            if let Some(Ok(())) = &res {
                if a.removed == Some(false) && !a.sent_shutdown {
                    // Closed by the broker for a protocol violation, yet run() reports success.
                }
            }
            if let Some(v) = self.match_stream(i) {
                vs.push(v);
            }
        }
        for v in vs {
            self.violate(v);
        }
    }
}

/// Executes one wire-level run. Must be called on a fresh thread whose hash seed has been set.
pub fn run_wire(plan: &WirePlan, replay: Option<Vec<u32>>, tracing: bool) -> RunResult {
    let mut master = Rng::new(plan.seed);
    let mut uuid_rng = master.fork(1);
    let sched_rng = master.fork(2);
    let buggify = master.fork(3);

    let _uuids = entropy::install_uuid_stream(&mut uuid_rng);
    let tap: Rc<RefCell<Vec<TapEvent>>> = Rc::new(RefCell::new(Vec::new()));
    {
        let tap = tap.clone();
        aldrin_broker::verif::install_observer(Some(Box::new(move |ev| tap.borrow_mut().push(ev))));
    }

    let mut exec = Exec::new();
    let broker = Broker::new();
    let handle = broker.handle().clone();
    let broker_task = exec.spawn("broker", broker.run());

    let est_len = 200 + plan.actors.iter().map(|a| a.script.len() * 8).sum::<usize>();
    let mut chooser = match replay {
        Some(c) => Chooser::replay(c),
        None => match plan.sched {
            SchedKind::Random => Chooser::random(sched_rng),
            SchedKind::Pct => Chooser::pct(sched_rng, plan.pct_depth, est_len),
            SchedKind::Sticky => Chooser::sticky(sched_rng),
        },
    };

    let actors = plan
        .actors
        .iter()
        .map(|p| Actor {
            plan: p.clone(),
            phase: Phase::NotStarted,
            pc: 0,
            script: p.script.clone(),
            stall_until: 0,
            pipe: None,
            task: None,
            shared: Rc::new(RefCell::new(ConnShared::default())),
            known: Known::default(),
            version: ProtocolVersion::new(1, p.minor.clamp(14, 20)),
            observed: Vec::new(),
            expected: Vec::new(),
            sent_shutdown: false,
            got_shutdown: false,
            task_dropped: false,
            removed: None,
            lossy_end: false,
            barrier: None,
            barrier_seen: false,
            handshake_ok: None,
            sent: 0,
            mapped: false,
            barrier_pc: None,
        })
        .collect::<Vec<_>>();

    let mut w = World {
        exec,
        handle,
        broker_task,
        has_abuser: actors.iter().any(|a| a.plan.abuser),
        actors,
        bb: Rc::new(RefCell::new(Blackboard::default())),
        model: Model::new(),
        tap,
        pending_input: None,
        raw_to_actor: BTreeMap::new(),
        seen_raw: BTreeSet::new(),
        release_handles: plan.actors.iter().any(|a| a.start_after > 0),
        unmapped: BTreeSet::new(),
        removed_unmapped: Vec::new(),
        violations: Vec::new(),
        harness_error: None,
        stats: RunStats::default(),
        sig: Fnv::new(),
        thash: Fnv::new(),
        trace: Vec::new(),
        tracing,
        buggify,
        stats_expected: Vec::new(),
        stats_results: Rc::new(RefCell::new(Vec::new())),
        last_snapshot: None,
        aux_tasks: Vec::new(),
        broker_exited: false,
        pending_permille_cfg: plan.pending_permille,
    };

    let mut stage = 0u8;
    let mut ready = Vec::new();
    let mut parked = Vec::new();
    let mut keys: Vec<u64> = Vec::new();
    let mut actions: Vec<Action> = Vec::new();

    loop {
        if !w.violations.is_empty() || w.harness_error.is_some() {
            break;
        }
        if w.stats.steps >= plan.max_steps {
            w.stats.step_cap_hit = true;
            let v = Violation::new(
                "liveness.no-quiescence",
                &[Prop::C11, Prop::C09, Prop::C06],
                format!("no quiescence within {} steps", plan.max_steps),
            );
            w.violate(v);
            break;
        }

        keys.clear();
        actions.clear();
        w.exec.ready_tasks(&mut ready);
        for &t in &ready {
            keys.push(t as u64);
            actions.push(Action::Poll(t));
        }
        for i in 0..w.actors.len() {
            if w.actor_can_step(i) {
                keys.push(29_000 + i as u64);
                actions.push(Action::ActorStep(i));
            }
            if w.actor_can_recv(i) {
                keys.push(39_000 + i as u64);
                actions.push(Action::ActorRecv(i));
            }
        }

        if actions.is_empty() {
            // A stalled actor is not quiescence: let time pass.
            if let Some(t) = w
                .actors
                .iter()
                .filter(|a| a.stall_until > w.stats.steps)
                .map(|a| a.stall_until)
                .min()
            {
                w.stats.steps = t;
                continue;
            }
            // Late joiners whose condition was never met connect now, before the teardown.
            if w.actors.iter().any(|a| a.phase == Phase::NotStarted && a.plan.start_after > 0) {
                for a in w.actors.iter_mut().filter(|a| a.phase == Phase::NotStarted) {
                    a.plan.start_after = 0;
                }
                continue;
            }
            // Lost wake-ups: nothing is in flight now, so polling a parked task once more must not
            // change anything.
            if w.probe_lost_wakeups() {
                break;
            }
            if !w.advance_teardown(&mut stage, plan.teardown) {
                break;
            }
            continue;
        }

        // Spurious poll of a parked task (futures must tolerate it).
        if plan.spurious_permille > 0 && w.buggify.chance(plan.spurious_permille, 1000) {
            w.exec.parked_tasks(&mut parked);
            if !parked.is_empty() {
                let t = parked[w.buggify.below(parked.len())];
                w.stats.spurious_polls += 1;
                w.thash.u64(0xdd00 + t as u64);
                if let PollOutcome::Panicked(info) = w.exec.poll(t) {
                    let name = w.exec.name(t).to_string();
                    w.on_panic(&format!("task '{name}' (spurious poll)"), info);
                }
                w.process_tap();
                w.stats.steps += 1;
                continue;
            }
        }

        let idx = chooser.choose(&keys);
        w.thash.u64(keys[idx]);
        match actions[idx] {
            Action::Poll(t) => {
                if let PollOutcome::Panicked(info) = w.exec.poll(t) {
                    let name = w.exec.name(t).to_string();
                    w.on_panic(&format!("task '{name}'"), info);
                }
            }
            Action::ActorStep(i) => w.actor_step(i),
            Action::ActorRecv(i) => w.actor_recv(i),
        }
        w.process_tap();
        w.stats.steps += 1;
    }

    if w.violations.is_empty() && w.harness_error.is_none() {
        w.final_checks();
    }

    // Tear the world down inside the panic guard; then remove the thread-local hooks.
    if let Err(info) = w.exec.drop_all() {
        if w.violations.is_empty() {
            w.on_panic("dropping the remaining tasks", info);
        }
    }
    aldrin_broker::verif::install_observer(None);
    entropy::uninstall_uuid_stream();

    if w.has_abuser {
        // With an abuser present, every failure to serve the others correctly is (also) C11's.
        for v in &mut w.violations {
            let serving = v.rule.starts_with("stream.")
                || v.rule.starts_with("state.")
                || v.rule.starts_with("conn.")
                || v.rule.starts_with("liveness.")
                || v.rule == "panic";
            if serving && !v.props.contains(&Prop::C11) {
                v.props.push(Prop::C11);
            }
        }
    }

    w.stats.polls = w.exec.total_polls;
    w.stats.signature = w.sig.0;
    w.stats.trace_hash = w.thash.0;
    let mut sh = Fnv::new();
    for c in &chooser.choices {
        sh.u64(*c as u64);
    }
    w.stats.schedule_hash = sh.0;
    w.stats.pendings_injected = w
        .actors
        .iter()
        .filter_map(|a| a.pipe.as_ref())
        .map(|p| p.pendings_injected())
        .sum();
    if w.stats.pendings_injected > 0 {
        *w.stats.faults.entry("io_pending").or_insert(0) += w.stats.pendings_injected;
    }
    if w.stats.spurious_polls > 0 {
        *w.stats.faults.entry("spurious_poll").or_insert(0) += w.stats.spurious_polls;
    }

    RunResult {
        violations: w.violations,
        harness_error: w.harness_error,
        stats: w.stats,
        choices: chooser.choices,
        trace: w.trace,
    }
}
